(* Correspondence glue of the reward / solvency properties (C08, C01): run the model CLR/RStep.v on a case of
   harness/clrdrv and flatten its observables exactly as props/_clr.py flattens the driver's.
   After every operation: the message response; pool tick / sqrt price / liquidity; the balances of the pool, the
   spread-reward and the incentive account (all literal); and a 128-bit digest (CL/CLCorr.digest) of everything else:
   ticks, positions, growth-outside trackers, claimable queries and accumulator records of every position, the seven
   accumulators, the incentive records, user balances.  With [rc_exits] also the two "everybody exits" experiments. *)
From Coq Require Import ZArith Bool List.
Import ListNotations.
From Osmo Require Import Base.Obs Base.DecModel CL.TickMath CL.CLMath CL.CLPool CL.CLSwap CL.CLStep CL.CLCorr
  CLR.Accum CLR.Rewards CLR.RSwap CLR.RStep.
Open Scope Z_scope.

Record rcase := mkRCase {
  rc_spacing : Z; rc_spread : Z;
  rc_spread_scaling : Z; rc_inc_scaling : Z;    (* the two accumulator scaling factors of the pool (raw Dec) *)
  rc_fund : Z; rc_time : Z;
  rc_exits : bool;
  rc_ops : list rop;
  rc_expect : list Z }.

Definition flat_dc (a : dc) : list Z := [fst a; snd a].
Definition flat_tracker (kv : Z * rtick) : list Z :=
  [fst kv] ++ flat_dc (rt_spread (snd kv)) ++ flat_map flat_dc (rt_up (snd kv)).
Definition flat_arec (r : option arec) : list Z :=
  match r with
  | Some r => [1; ar_shares r] ++ flat_dc (ar_snap r) ++ flat_dc (ar_unclaimed r)
  | None => [0]
  end.
Definition flat_pos_rewards (rs : rstate) (p : position) : list Z :=
  let id := ps_id p in
  (match claimable_spread rs id with Some c => [1; fst c; snd c] | None => [0] end)
  ++ (match claimable_incentives rs id with Some (c, f) => [1; fst c; snd c; fst f; snd f] | None => [0] end)
  ++ flat_arec (acc_get (rw_spread (r_rw rs)) id)
  ++ flat_map (fun a => flat_arec (acc_get a id)) (rw_up (r_rw rs)).
Definition flat_acc (a : accum) : list Z := flat_dc (ac_value a) ++ [ac_total a].
Definition flat_rec (r : inc_rec) : list Z := [ir_id r; ir_up r; ir_denom r; ir_remaining r; ir_rate r; ir_start r].
Definition flat_rewards (rs : rstate) : list Z :=
  let w := r_rw rs in
  [Z.of_nat (length (rw_tt w))] ++ flat_map flat_tracker (rw_tt w)
  ++ flat_map (flat_pos_rewards rs) (s_pos (r_base rs))
  ++ flat_acc (rw_spread w) ++ flat_map flat_acc (rw_up w)
  ++ [Z.of_nat (length (rw_recs w))] ++ flat_map flat_rec (rw_recs w)
  ++ [rw_next_inc w; rw_last w]
  ++ flat_map (fun u => [fst u; snd u]) (b_users (s_bank (r_base rs))).
Definition flat_accounts (b : bank) : list Z :=
  [fst (b_pool b); snd (b_pool b); fst (b_spread b); snd (b_spread b); fst (b_inc b); snd (b_inc b)].
Definition flat_rstate (rs : rstate) : list Z :=
  let s := r_base rs in
  [p_tick (s_pool s); p_sqrt (s_pool s); p_liq (s_pool s)] ++ flat_accounts (s_bank s)
  ++ [digest (flat_rest s ++ flat_rewards rs)].

(* ---------- everybody exits (C01) ---------- *)
Definition ok_list (r : option (list Z)) (n : nat) : list Z :=
  match r with Some l => 1 :: l | None => 0 :: repeat 0 n end.
(* one position: order 0 = collect spread rewards, collect incentives, withdraw everything; order 1 = withdraw only *)
Definition exit_one (order : Z) (rs : rstate) (id : Z) : rstate * list Z :=
  match pos_get (s_pos (r_base rs)) id with
  | None => (rs, [0; 0; 0])
  | Some q =>
    let owner := ps_owner q in
    let '(rs2, pre) :=
      (if order =? 0 then
         let '(rs1, r1) := rstep rs (RCollectSpread owner [id]) in
         let '(rs2, r2) := rstep rs1 (RCollectInc owner [id]) in
         (rs2, ok_list r1 2 ++ ok_list r2 4)
       else (rs, [])) in
    let '(rs3, r3) := rstep rs2 (RBase (OWithdraw owner id (ps_liq q))) in
    (rs3, pre ++ ok_list r3 2)
  end.
Fixpoint exit_ids (order : Z) (rs : rstate) (ids : list Z) : rstate * list Z :=
  match ids with
  | [] => (rs, [])
  | id :: r => let '(rs1, l1) := exit_one order rs id in
               let '(rs2, l2) := exit_ids order rs1 r in (rs2, l1 ++ l2)
  end.
Definition rec_sum (d : Z) (l : list inc_rec) : Z :=
  fold_left (fun a r => if ir_denom r =? d then a + ir_remaining r else a) l 0.
Definition exit_all (order : Z) (rs : rstate) : list Z :=
  let ids := map ps_id (s_pos (r_base rs)) in
  let ids := if order =? 0 then ids else rev ids in
  let '(rs', l) := exit_ids order rs ids in
  l ++ flat_accounts (s_bank (r_base rs')) ++ [Z.of_nat (length (s_pos (r_base rs')))]
  ++ [rec_sum 0 (rw_recs (r_rw rs')); rec_sum 1 (rw_recs (r_rw rs'))].

Fixpoint rscan (exits : bool) (rs : rstate) (ops : list rop) : list Z :=
  match ops with
  | [] => []
  | o :: r => let '(rs', res) := rstep rs o in
              flat_result res ++ flat_rstate rs'
              ++ (if exits then exit_all 0 rs' ++ exit_all 1 rs' else [])
              ++ rscan exits rs' r
  end.

Definition rcase_init (c : rcase) : rstate :=
  rinit (rc_spacing c) (rc_spread c) (rc_spread_scaling c) (rc_inc_scaling c)
        [(rc_fund c, rc_fund c); (rc_fund c, rc_fund c); (rc_fund c, rc_fund c)] (rc_time c).
Definition rmodel_obs (c : rcase) : list Z :=
  flat_rstate (rcase_init c) ++ rscan (rc_exits c) (rcase_init c) (rc_ops c).
Definition rcase_ok (c : rcase) : bool := zlist_eqb (rmodel_obs c) (rc_expect c).
