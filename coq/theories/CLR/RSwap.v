(* The reward-relevant trace of a concentrated-liquidity swap.  The loops of CL/CLSwap.v return only the final swap
   state; the growth-outside trackers, however, are flipped at every tick crossing with the spread-reward growth of
   the running swap at that moment (Keeper.swapCrossTickLogic -> crossTick).  [eloop_*] are the loops of CL/CLSwap.v
   re-run with the same per-step functions (compute_out_given_in / compute_in_given_out / after_step, imported, not
   copied), additionally emitting for every iteration
     EvGrow g   - SwapState.updateSpreadRewardGrowthGlobal added g to globalSpreadRewardGrowthPerUnitLiquidity
     EvCross i  - the iteration ended on initialised tick i: swapCrossTickLogic(i)
     EvMove t   - the iteration ended inside a bucket: swapState.tick := t
   [apply_events] replays them on the reward state (updateGivenPoolUptimeAccumulatorsToNow + crossTick at every
   crossing; AddToAccumulator of the total growth at the end).  Definitions only; C08/ proves that the state
   component of [eloop_*] is exactly the loop of CL/CLSwap.v. *)
From Coq Require Import ZArith Bool List.
Import ListNotations.
From Osmo Require Import Base.DecModel Gen.CL_consts CL.TickMath CL.CLMath CL.CLPool CL.CLSwap CLR.Accum CLR.Rewards.
Open Scope Z_scope.

Inductive sev := EvGrow (g : Z) | EvCross (i : Z) | EvMove (t : Z).

(* the events of one iteration whose bucket computation gave (computed, fee); same case analysis as CLSwap.after_step *)
Definition step_events (zfo accum : bool) (scaling : Z) (st : swap_state) (nt nts computed fee : Z) : list sev :=
  match (if accum then update_fee_growth scaling st fee else Some st) with
  | None => []
  | Some st1 =>
    EvGrow (ss_growth st1 - ss_growth st) ::
    (if nts =? computed then [EvCross nt]
     else if edge_case zfo nts computed then []
     else if negb (ss_sqrt st =? computed) then
       match calculate_sqrt_price_to_tick computed with Some t => [EvMove t] | None => [] end
     else [])
  end.

Fixpoint eloop_out_given_in (fuel : nat) (zfo accum : bool) (spf scaling limit : Z) (st : swap_state)
         (iter : list (Z * tick_info)) (noprog : Z) : option swap_state * list sev :=
  match fuel with
  | O => (None, [])
  | S f =>
    if (smallest_dec <? ss_remaining st) && negb (ss_sqrt st =? limit) then
      match iter with
      | [] => (None, [])
      | (nt, info) :: _ =>
        match tick_to_sqrt_price nt with
        | None => (None, [])
        | Some nts =>
          let target := sqrt_target zfo limit nts in
          match compute_out_given_in zfo spf (ss_sqrt st) target (ss_liq st) (ss_remaining st) with
          | None => (None, [])
          | Some (computed, amt_in, amt_out, fee) =>
            if negb (progress_ok computed (ss_sqrt st) amt_in amt_out) then (None, []) else
            match dchk (amt_in + fee) with
            | None => (None, [])
            | Some infee =>
              match after_step zfo accum scaling st iter nt info nts computed infee amt_out fee with
              | None => (None, [])
              | Some (st', iter') =>
                let ev := step_events zfo accum scaling st nt nts computed fee in
                if amt_in =? 0 then
                  if swap_no_progress_limit <=? noprog then (None, [])
                  else let '(r, evs) := eloop_out_given_in f zfo accum spf scaling limit st' iter' (noprog + 1) in (r, ev ++ evs)
                else let '(r, evs) := eloop_out_given_in f zfo accum spf scaling limit st' iter' noprog in (r, ev ++ evs)
              end
            end
          end
        end
      end
    else (Some st, [])
  end.

Fixpoint eloop_in_given_out (fuel : nat) (zfo accum : bool) (spf scaling limit : Z) (st : swap_state)
         (iter : list (Z * tick_info)) (noprog : Z) : option swap_state * list sev :=
  match fuel with
  | O => (None, [])
  | S f =>
    if (smallest_dec <? ss_remaining st) && negb (ss_sqrt st =? limit) then
      match iter with
      | [] => (None, [])
      | (nt, info) :: _ =>
        match tick_to_sqrt_price nt with
        | None => (None, [])
        | Some nts =>
          let target := sqrt_target zfo limit nts in
          match compute_in_given_out zfo spf (ss_sqrt st) target (ss_liq st) (ss_remaining st) with
          | None => (None, [])
          | Some (computed, amt_out, amt_in, fee) =>
            if negb (progress_ok computed (ss_sqrt st) amt_in amt_out) then (None, []) else
            match dchk (amt_in + fee) with
            | None => (None, [])
            | Some infee =>
              match after_step zfo accum scaling st iter nt info nts computed amt_out infee fee with
              | None => (None, [])
              | Some (st', iter') =>
                let ev := step_events zfo accum scaling st nt nts computed fee in
                if amt_out =? 0 then
                  if swap_no_progress_limit <=? noprog then (None, [])
                  else let '(r, evs) := eloop_in_given_out f zfo accum spf scaling limit st' iter' (noprog + 1) in (r, ev ++ evs)
                else let '(r, evs) := eloop_in_given_out f zfo accum spf scaling limit st' iter' noprog in (r, ev ++ evs)
              end
            end
          end
        end
      end
    else (Some st, [])
  end.

(* the events of an executed swap (exact_in: out-given-in loop; otherwise in-given-out) on pool state s *)
Definition swap_events (s : state) (exact_in zfo : bool) (amount : Z) : option (list sev) :=
  do su <- swap_setup s zfo;
  let '(limit, iter) := su in
  let p := s_pool s in
  let st0 := mkSS (d_from_int amount) 0 (p_sqrt p) (p_tick p) (p_liq p) 0 0 in
  let '(r, evs) := (if exact_in then eloop_out_given_in else eloop_in_given_out)
                     (swap_fuel (s_ticks s)) zfo true (p_spread p) (p_scaling p) limit st0 iter 0 in
  do _ <- r; Some evs.

(* replay on the reward state: pending = globalSpreadRewardGrowthPerUnitLiquidity of the running swap;
   pool_liq / now: liquidity of the pool object the swap holds (pre-swap) and the block time *)
Fixpoint apply_events (w : rwd) (denom_in pool_liq now pending : Z) (evs : list sev) : option (rwd * Z) :=
  match evs with
  | [] => Some (w, pending)
  | EvGrow g :: r => do p <- dchk (pending + g); apply_events w denom_in pool_liq now p r
  | EvMove _ :: r => apply_events w denom_in pool_liq now pending r
  | EvCross i :: r =>
    do w1 <- update_uptime w pool_liq now;
    do w2 <- cross_trackers w1 denom_in pending i;
    apply_events w2 denom_in pool_liq now pending r
  end.

(* the reward-state effect of computeOutAmtGivenIn / computeInAmtGivenOut with updateAccumulators = true *)
Definition swap_rewards (w : rwd) (s : state) (exact_in zfo : bool) (amount now : Z) : option rwd :=
  do evs <- swap_events s exact_in zfo amount;
  let denom_in := if zfo then 0 else 1 in
  do r <- apply_events w denom_in (p_liq (s_pool s)) now 0 evs;
  let '(w1, pending) := r in
  do a <- acc_add_to (rw_spread w1) (dc_one denom_in pending);
  Some (set_spread_acc w1 a).
