(* Concentrated-liquidity pool WITH its reward bookkeeping: the product of the shared pool model (CL/CLPool.v,
   CL/CLSwap.v, CL/CLStep.v - imported, unchanged) and the reward state of CLR/Rewards.v.  Every message handler of
   the keeper is the base handler (pool, ticks, positions, principal balances) plus the reward-side effects the Go
   code interleaves with it, mirroring lp.go (CreatePosition / WithdrawPosition / addToPosition / UpdatePosition),
   swaps.go, spread_rewards.go (collectSpreadRewards), incentives.go (collectIncentives, CreateIncentive) and
   msg_server.go (CollectSpreadRewards / CollectIncentives loops).  The base state never depends on the reward state
   except through failure (a reward-side error or panic fails the whole message: baseapp atomicity, DESIGN.md 1.5).
   Definitions only.

   Keeper.UpdatePosition reward side (initOrUpdateTick x2, initOrUpdatePositionUptimeAccumulators,
     initOrUpdatePositionSpreadRewardAccumulator)            -> update_position_rewards
   Keeper.CreatePosition                                     -> r_create
   Keeper.collectIncentives                                  -> collect_incentives
   Keeper.collectSpreadRewards                               -> collect_spread_rewards
   Keeper.WithdrawPosition                                   -> r_withdraw
   Keeper.addToPosition                                      -> r_add
   Keeper.swapOutAmtGivenIn / swapInAmtGivenOut              -> r_swap_in / r_swap_out
   msgServer.CollectSpreadRewards / CollectIncentives        -> r_collect_spread / r_collect_inc
   Keeper.CreateIncentive                                    -> r_incentive
   Keeper.GetClaimableSpreadRewards / GetClaimableIncentives -> claimable_spread / claimable_incentives *)
From Coq Require Import ZArith Bool List.
Import ListNotations.
From Osmo Require Import Base.DecModel Gen.CL_consts CL.TickMath CL.CLMath CL.CLPool CL.CLSwap CL.CLStep
  CLR.Accum CLR.Rewards CLR.RSwap.
Open Scope Z_scope.

Record rstate := mkRS { r_base : state; r_rw : rwd }.

(* ---------- bank: the two reward accounts ---------- *)
Definition set_binc (b : bank) (v : Z * Z) : bank := mkBank (b_pool b) (b_spread b) v (b_users b).
(* SendCoins(spread-reward account -> user) of non-negative amounts *)
Definition send_spread_to_user (b : bank) (u a0 a1 : Z) : option bank :=
  if (a0 <? 0) || (a1 <? 0) then None else
  do ub <- user_bal b u;
  let '(u0, u1) := ub in
  let '(p0, p1) := b_spread b in
  if (p0 <? a0) || (p1 <? a1) then None else
  Some (set_bspread (set_user b u (u0 + a0, u1 + a1)) (p0 - a0, p1 - a1)).
Definition send_inc_to_user (b : bank) (u a0 a1 : Z) : option bank :=
  if (a0 <? 0) || (a1 <? 0) then None else
  do ub <- user_bal b u;
  let '(u0, u1) := ub in
  let '(p0, p1) := b_inc b in
  if (p0 <? a0) || (p1 <? a1) then None else
  Some (set_binc (set_user b u (u0 + a0, u1 + a1)) (p0 - a0, p1 - a1)).
Definition send_user_to_inc (b : bank) (u a0 a1 : Z) : option bank :=
  if (a0 <? 0) || (a1 <? 0) then None else
  do ub <- user_bal b u;
  let '(u0, u1) := ub in
  if (u0 <? a0) || (u1 <? a1) then None else
  let '(p0, p1) := b_inc b in
  Some (set_binc (set_user b u (u0 - a0, u1 - a1)) (p0 + a0, p1 + a1)).
Definition with_bank (rs : rstate) (b : bank) : rstate := mkRS (set_bank (r_base rs) b) (r_rw rs).
Definition with_rw (rs : rstate) (w : rwd) : rstate := mkRS (r_base rs) w.

(* ---------- UpdatePosition, reward side ----------
   cur = pool.CurrentTick, pool_liq = pool.CurrentTickLiquidity when UpdatePosition starts, liquidity = the position's
   liquidity after the update *)
Definition update_position_rewards (w : rwd) (cur pool_liq now lo hi id liquidity delta : Z) : option rwd :=
  do w1 <- ensure_tick w cur pool_liq now lo;
  do w2 <- ensure_tick w1 cur pool_liq now hi;
  do w3 <- init_or_update_uptime w2 cur pool_liq now lo hi id liquidity delta;
  init_or_update_spread w3 cur lo hi id delta.

Definition r_create (rs : rstate) (owner a0 a1 min0 min1 lo hi : Z) : option (rstate * create_result) :=
  let s := r_base rs in
  do r <- create_position s owner a0 a1 min0 min1 lo hi;
  let '(s', c) := r in
  (* CreatePosition does not move the current tick once it is set; for the first position it is set before UpdatePosition *)
  do w <- update_position_rewards (r_rw rs) (p_tick (s_pool s')) (p_liq (s_pool s)) (s_time s)
            (cr_lower c) (cr_upper c) (cr_id c) (cr_liq c) (cr_liq c);
  Some (mkRS s' w, c).

(* collectIncentives for position q (owner already checked) on (bank, rewards):
   -> (bank, rewards, collected, forfeited, scaled forfeited by uptime) *)
Definition collect_incentives (b : bank) (w : rwd) (cur pool_liq now : Z) (q : position)
  : option (bank * rwd * (Z * Z) * (Z * Z) * list (Z * Z)) :=
  do r <- prepare_claim_all_incentives w cur pool_liq now (ps_lower q) (ps_upper q) (ps_id q) (ps_join q);
  let '(w1, col, forf, byup) := r in
  do b1 <- (if (fst col =? 0) && (snd col =? 0) then Some b
            else send_inc_to_user b (ps_owner q) (fst col) (snd col));
  Some (b1, w1, col, forf, byup).

(* collectSpreadRewards for position q (owner already checked) *)
Definition collect_spread_rewards (b : bank) (w : rwd) (spread_scaling cur : Z) (q : position)
  : option (bank * rwd * (Z * Z)) :=
  do r <- prepare_claimable_spread w spread_scaling cur (ps_lower q) (ps_upper q) (ps_id q);
  let '(w1, c) := r in
  do b1 <- (if (fst c =? 0) && (snd c =? 0) then Some b
            else send_spread_to_user b (ps_owner q) (fst c) (snd c));
  Some (b1, w1, c).

Definition r_withdraw (rs : rstate) (owner id liq : Z) : option (rstate * (Z * Z)) :=
  let s := r_base rs in
  do r <- withdraw_position s owner id liq;
  let '(s', amts) := r in
  do q <- pos_get (s_pos s) id;
  let cur := p_tick (s_pool s) in
  let pl := p_liq (s_pool s) in
  let now := s_time s in
  let lo := ps_lower q in let hi := ps_upper q in
  (* collectIncentives *)
  do ci <- collect_incentives (s_bank s') (r_rw rs) cur pl now q;
  let '(b1, w1, _, forf, byup) := ci in
  (* UpdatePosition with the negative delta *)
  do w2 <- update_position_rewards w1 cur pl now lo hi id (ps_liq q - liq) (- liq);
  (* redepositForfeitedIncentives with the pool liquidity after the withdrawal *)
  let pl' := p_liq (s_pool s') in
  do bw <- (if pl' <? P18 then
              do b2 <- send_inc_to_user b1 owner (fst forf) (snd forf); Some (b2, w2)
            else do w3 <- redeposit_forfeited w2 byup pl'; Some (b1, w3));
  let '(b2, w3) := bw in
  (* a full withdrawal also collects the spread rewards (and the position is deleted) *)
  do bw2 <- (if liq =? ps_liq q then
               do c <- collect_spread_rewards b2 w3 (p_scaling (s_pool s)) cur q;
               let '(b3, w4, _) := c in Some (b3, w4)
             else Some (b2, w3));
  let '(b3, w4) := bw2 in
  (* RemoveTickInfo of the ticks that became empty *)
  let t1 := match tick_get (s_ticks s') lo with None => tt_remove (rw_tt w4) lo | Some _ => rw_tt w4 end in
  let t2 := match tick_get (s_ticks s') hi with None => tt_remove t1 hi | Some _ => t1 end in
  Some (mkRS (set_bank s' b3) (set_tt w4 t2), amts).

Definition r_add (rs : rstate) (owner id add0 add1 min0 min1 : Z) : option (rstate * (Z * Z * Z)) :=
  let s := r_base rs in
  if id <=? 0 then None else
  if (add0 <? 0) || (add1 <? 0) || (min0 <? 0) || (min1 <? 0) then None else
  do q <- pos_get (s_pos s) id;
  if negb (ps_owner q =? owner) then None else
  if (add0 =? 0) && (add1 =? 0) then None else
  do w <- r_withdraw rs owner id (ps_liq q);
  let '(rs1, (w0, w1)) := w in
  if negb (pool_has_position (s_pool (r_base rs1))) then None else
  let m0 := if min0 =? 0 then w0 else w0 + min0 in
  let m1 := if min1 =? 0 then w1 else w1 + min1 in
  do c <- r_create rs1 owner (w0 + add0) (w1 + add1) m0 m1 (ps_lower q) (ps_upper q);
  let '(rs2, r) := c in
  Some (rs2, (cr_id r, cr_amount0 r, cr_amount1 r)).

Definition r_swap_in (rs : rstate) (sender : Z) (zfo : bool) (token_in min_out : Z) : option (rstate * Z) :=
  let s := r_base rs in
  do r <- swap_exact_in s sender zfo token_in min_out;
  let '(s', out) := r in
  do w <- swap_rewards (r_rw rs) s true zfo token_in (s_time s);
  Some (mkRS s' w, out).
Definition r_swap_out (rs : rstate) (sender : Z) (zfo : bool) (token_out max_in : Z) : option (rstate * Z) :=
  let s := r_base rs in
  do r <- swap_exact_out s sender zfo token_out max_in;
  let '(s', tin) := r in
  do w <- swap_rewards (r_rw rs) s false zfo token_out (s_time s);
  Some (mkRS s' w, tin).

(* msgServer.CollectSpreadRewards: position by position, fails on the first bad one; result = total collected *)
Fixpoint r_collect_spread_loop (rs : rstate) (owner : Z) (ids : list Z) (tot : Z * Z) : option (rstate * (Z * Z)) :=
  match ids with
  | [] => Some (rs, tot)
  | id :: rest =>
    let s := r_base rs in
    do q <- pos_get (s_pos s) id;
    if negb (ps_owner q =? owner) then None else
    do c <- collect_spread_rewards (s_bank s) (r_rw rs) (p_scaling (s_pool s)) (p_tick (s_pool s)) q;
    let '(b, w, x) := c in
    r_collect_spread_loop (mkRS (set_bank s b) w) owner rest (fst tot + fst x, snd tot + snd x)
  end.
Definition r_collect_spread (rs : rstate) (owner : Z) (ids : list Z) : option (rstate * (Z * Z)) :=
  r_collect_spread_loop rs owner ids (0, 0).       (* ValidateBasic only checks the sender address *)

Fixpoint r_collect_inc_loop (rs : rstate) (owner : Z) (ids : list Z) (col forf : Z * Z) : option (rstate * ((Z * Z) * (Z * Z))) :=
  match ids with
  | [] => Some (rs, (col, forf))
  | id :: rest =>
    let s := r_base rs in
    do q <- pos_get (s_pos s) id;
    if negb (ps_owner q =? owner) then None else
    do c <- collect_incentives (s_bank s) (r_rw rs) (p_tick (s_pool s)) (p_liq (s_pool s)) (s_time s) q;
    let '(b, w, x, f, _) := c in
    r_collect_inc_loop (mkRS (set_bank s b) w) owner rest (fst col + fst x, snd col + snd x) (fst forf + fst f, snd forf + snd f)
  end.
Definition r_collect_inc (rs : rstate) (owner : Z) (ids : list Z) : option (rstate * ((Z * Z) * (Z * Z))) :=
  r_collect_inc_loop rs owner ids (0, 0) (0, 0).

(* Keeper.CreateIncentive(pool, sender, coin(denom index, amount), emission rate, start = now + dt, uptime index);
   every supported uptime is authorised in the driver's chain *)
Definition r_incentive (rs : rstate) (sender denom amount rate dt u : Z) : option rstate :=
  let s := r_base rs in
  let now := s_time s in
  if negb (0 <? amount) then None else
  if dt <? 0 then None else                                   (* StartTimeTooEarlyError *)
  if negb (0 <? rate) then None else
  if (u <? 0) || (Z.of_nat n_uptimes <=? u) then None else
  do ub <- user_bal (s_bank s) sender;
  if dc_get denom ub <? amount then None else                 (* IncentiveInsufficientBalanceError *)
  do w1 <- update_uptime (r_rw rs) (p_liq (s_pool s)) now;
  let w2 := add_incentive_record w1 u denom amount rate (now + dt) in
  do b <- send_user_to_inc (s_bank s) sender (fst (dc_one denom amount)) (snd (dc_one denom amount));
  Some (mkRS (set_bank s b) w2).

(* queries (run on a discarded cache context) *)
Definition claimable_spread (rs : rstate) (id : Z) : option (Z * Z) :=
  let s := r_base rs in
  do q <- pos_get (s_pos s) id;
  do r <- prepare_claimable_spread (r_rw rs) (p_scaling (s_pool s)) (p_tick (s_pool s)) (ps_lower q) (ps_upper q) id;
  Some (snd r).
Definition claimable_incentives (rs : rstate) (id : Z) : option ((Z * Z) * (Z * Z)) :=
  let s := r_base rs in
  do q <- pos_get (s_pos s) id;
  do r <- prepare_claim_all_incentives (r_rw rs) (p_tick (s_pool s)) (p_liq (s_pool s)) (s_time s) (ps_lower q) (ps_upper q) id (ps_join q);
  let '(_, col, forf, _) := r in Some (col, forf).

(* ---------- operations ---------- *)
Inductive rop :=
| RBase (o : op)                                   (* create / withdraw / add / transfer / swaps / time of CL/CLStep.v *)
| RCollectSpread (owner : Z) (ids : list Z)
| RCollectInc (owner : Z) (ids : list Z)
| RIncentive (sender denom amount rate dt u : Z).

Definition rhandler (rs : rstate) (o : rop) : option (rstate * list Z) :=
  match o with
  | RBase (OCreate owner a0 a1 m0 m1 lo hi) =>
      do r <- r_create rs owner a0 a1 m0 m1 lo hi;
      let '(rs', c) := r in
      Some (rs', [cr_id c; cr_amount0 c; cr_amount1 c; cr_liq c; cr_lower c; cr_upper c])
  | RBase (OWithdraw owner id liq) =>
      do r <- r_withdraw rs owner id liq;
      let '(rs', (a0, a1)) := r in Some (rs', [a0; a1])
  | RBase (OAdd owner id a0 a1 m0 m1) =>
      do r <- r_add rs owner id a0 a1 m0 m1;
      let '(rs', (nid, x0, x1)) := r in Some (rs', [nid; x0; x1])
  | RBase (OTransfer sender ids recipient) =>
      do s' <- transfer_positions (r_base rs) sender ids recipient; Some (mkRS s' (r_rw rs), [])
  | RBase (OSwapIn sender zfo amt min_out) =>
      do r <- r_swap_in rs sender zfo amt min_out;
      let '(rs', out) := r in Some (rs', [out])
  | RBase (OSwapOut sender zfo amt max_in) =>
      do r <- r_swap_out rs sender zfo amt max_in;
      let '(rs', tin) := r in Some (rs', [tin])
  | RBase (OTime dt) => Some (mkRS (set_time (r_base rs) (s_time (r_base rs) + dt)) (r_rw rs), [])
  | RCollectSpread owner ids =>
      do r <- r_collect_spread rs owner ids;
      let '(rs', c) := r in Some (rs', [fst c; snd c])
  | RCollectInc owner ids =>
      do r <- r_collect_inc rs owner ids;
      let '(rs', (c, f)) := r in Some (rs', [fst c; snd c; fst f; snd f])
  | RIncentive sender denom amount rate dt u =>
      do rs' <- r_incentive rs sender denom amount rate dt u; Some (rs', [])
  end.

Definition rstep (rs : rstate) (o : rop) : rstate * option (list Z) :=
  match rhandler rs o with
  | Some (rs', r) => (rs', Some r)
  | None => (rs, None)
  end.

Fixpoint rrun (rs : rstate) (ops : list rop) : rstate :=
  match ops with
  | [] => rs
  | o :: r => rrun (fst (rstep rs o)) r
  end.

Definition rinit (spacing spread spread_scaling inc_scaling : Z) (users : list (Z * Z)) (time : Z) : rstate :=
  mkRS (init_state spacing spread spread_scaling users time) (rwd_init time inc_scaling).
