(* Reward bookkeeping of ONE concentrated-liquidity pool - the extension of the shared pool model CL/CLPool.v
   that properties C08 and C01 need - mirroring /repo/x/concentrated-liquidity/{spread_rewards.go, incentives.go,
   tick.go (growth-outside trackers)} function by function, as written.  Definitions only.

   The reward state [rwd] is kept next to (not inside) the pool state of CL/CLPool.v: every function takes what it
   reads from the pool (current tick, pool liquidity, block time) as parameters; CLR/RStep.v combines both.
   Amounts: raw LegacyDec (x 10^18); DecCoins = pairs over the pool's two denominations (CLR/Accum.v); times in
   whole seconds (the driver starts at a whole second and advances whole seconds), durations in nanoseconds.

   model.TickInfo.SpreadRewardGrowthOppositeDirectionOfLastTraversal, .UptimeTrackers -> rtick
   types.IncentiveRecord                                   -> inc_rec
   spread accumulator, 6 uptime accumulators, incentive records, NextIncentiveRecordId,
     Pool.LastLiquidityUpdate, the two scaling factors      -> rwd
   Keeper.calcAccruedIncentivesForAccum (+ computeTotalIncentivesToEmit, scaleUpTotalEmittedAmount) -> accrue_one / calc_accrued
   Keeper.updateGivenPoolUptimeAccumulatorsToNow (+ setMultipleIncentiveRecords)  -> update_uptime
   getInitialSpreadRewardGrowthOppositeDirectionOfLastTraversalForTick,
     getInitialUptimeGrowthOppositeDirectionOfLastTraversalForTick, makeInitialTickInfo -> ensure_tick / tt_read
   Keeper.crossTick                                        -> cross_trackers
   calculateSpreadRewardGrowth, getSpreadRewardGrowthOutside -> spread_growth_outside
   GetUptimeGrowthInsideRange / GetUptimeGrowthOutsideRange  -> uptime_growth_inside / uptime_growth_outside
   updatePositionToInitValuePlusGrowthOutside              -> to_init_plus_outside
   initOrUpdatePositionSpreadRewardAccumulator             -> init_or_update_spread
   initOrUpdatePositionUptimeAccumulators                  -> init_or_update_uptime
   updateAccumAndClaimRewards                              -> update_accum_and_claim
   scaleDownSpreadRewardAmount / scaleDownIncentiveAmount  -> scale_down
   prepareClaimableSpreadRewards                           -> prepare_claimable_spread
   prepareClaimAllIncentivesForPosition                    -> prepare_claim_all_incentives
   redepositForfeitedIncentives (accumulator part)         -> redeposit_forfeited
   CreateIncentive (record part)                           -> add_incentive_record *)
From Coq Require Import ZArith Bool List.
Import ListNotations.
From Osmo Require Import Base.DecModel Gen.CLR_consts CL.TickMath CL.CLMath CL.CLSwap CLR.Accum.
Open Scope Z_scope.

Definition uptimes_ns : list Z := clr_SupportedUptimes_ns.
Definition n_uptimes : nat := length uptimes_ns.

(* ---------- records ---------- *)
Record rtick := mkRT { rt_spread : dc; rt_up : list dc }.
Record inc_rec := mkIR { ir_id : Z; ir_up : Z; ir_denom : Z; ir_remaining : Z; ir_rate : Z; ir_start : Z }.
Record rwd := mkRwd {
  rw_tt : list (Z * rtick);        (* trackers of the stored ticks (same keys as the tick map of the pool model) *)
  rw_spread : accum;
  rw_up : list accum;              (* one accumulator per supported uptime *)
  rw_recs : list inc_rec;          (* incentive records with a positive remaining amount *)
  rw_next_inc : Z;
  rw_last : Z;                     (* Pool.LastLiquidityUpdate (s) *)
  rw_inc_scaling : Z }.            (* incentive accumulator scaling factor of the pool (raw Dec) *)

Definition set_tt (w : rwd) (t : list (Z * rtick)) : rwd := mkRwd t (rw_spread w) (rw_up w) (rw_recs w) (rw_next_inc w) (rw_last w) (rw_inc_scaling w).
Definition set_spread_acc (w : rwd) (a : accum) : rwd := mkRwd (rw_tt w) a (rw_up w) (rw_recs w) (rw_next_inc w) (rw_last w) (rw_inc_scaling w).
Definition set_up (w : rwd) (u : list accum) : rwd := mkRwd (rw_tt w) (rw_spread w) u (rw_recs w) (rw_next_inc w) (rw_last w) (rw_inc_scaling w).

Fixpoint tt_get (m : list (Z * rtick)) (k : Z) : option rtick :=
  match m with
  | [] => None
  | (k', v) :: r => if k =? k' then Some v else tt_get r k
  end.
Fixpoint tt_set (m : list (Z * rtick)) (k : Z) (v : rtick) : list (Z * rtick) :=
  match m with
  | [] => [(k, v)]
  | (k', v') :: r => if k <? k' then (k, v) :: m else if k =? k' then (k, v) :: r else (k', v') :: tt_set r k v
  end.
Fixpoint tt_remove (m : list (Z * rtick)) (k : Z) : list (Z * rtick) :=
  match m with
  | [] => []
  | (k', v') :: r => if k =? k' then r else (k', v') :: tt_remove r k
  end.

(* pointwise binary operation on two DecCoins arrays of equal length (osmoutils.SubDecCoinArrays etc.) *)
Fixpoint omap2 (f : dc -> dc -> option dc) (a b : list dc) : option (list dc) :=
  match a, b with
  | [], [] => Some []
  | x :: a', y :: b' => do z <- f x y; do r <- omap2 f a' b'; Some (z :: r)
  | _, _ => None
  end.

(* ---------- uptime accrual ---------- *)
(* one incentive record inside calcAccruedIncentivesForAccum(uptime index u): returns the accumulator addition so far
   and the updated record; a record that does not qualify, or whose arithmetic overflows (recovered panic), is skipped *)
Definition accrue_one (u liq dt18 scaling now : Z) (r : inc_rec) (acc : dc) : option (dc * inc_rec) :=
  if negb (ir_start r <? now) || negb (ir_up r =? u) then Some (acc, r) else
  match dchk (d_mul_truncate dt18 (ir_rate r)) with               (* computeTotalIncentivesToEmit *)
  | None => Some (acc, r)
  | Some total =>
    match dchk (d_mul_truncate total scaling) with                 (* scaleUpTotalEmittedAmount *)
    | None => Some (acc, r)
    | Some scaled =>
      do _ <- nz liq;
      do per <- dchk (d_quo_truncate scaled liq);
      if total <=? ir_remaining r then
        do acc' <- dc_add acc (dc_one (ir_denom r) per);
        do rem <- dchk (ir_remaining r - total);
        Some (acc', mkIR (ir_id r) (ir_up r) (ir_denom r) rem (ir_rate r) (ir_start r))
      else
        match dchk (d_mul_truncate (ir_remaining r) scaling) with
        | None => Some (acc, r)
        | Some rem_scaled =>
          do per' <- dchk (d_quo_truncate rem_scaled liq);
          do acc' <- dc_add acc (dc_one (ir_denom r) per');
          Some (acc', mkIR (ir_id r) (ir_up r) (ir_denom r) 0 (ir_rate r) (ir_start r))
        end
    end
  end.

Fixpoint calc_accrued (u liq dt18 scaling now : Z) (recs : list inc_rec) (acc : dc) : option (dc * list inc_rec) :=
  match recs with
  | [] => Some (acc, [])
  | r :: rest =>
    do st <- accrue_one u liq dt18 scaling now r acc;
    let '(acc', r') := st in
    do x <- calc_accrued u liq dt18 scaling now rest acc';
    Some (fst x, r' :: snd x)
  end.

Definition calc_accrued_for_accum (u liq dt18 scaling now : Z) (recs : list inc_rec) : option (dc * list inc_rec) :=
  if negb (0 <? liq) || negb (0 <? dt18) then None else calc_accrued u liq dt18 scaling now recs dc0.

Fixpoint accrue_all (u : Z) (ups : list accum) (liq dt18 scaling now : Z) (recs : list inc_rec) : option (list accum * list inc_rec) :=
  match ups with
  | [] => Some ([], recs)
  | a :: rest =>
    do x <- calc_accrued_for_accum u liq dt18 scaling now recs;
    let '(add, recs') := x in
    do a' <- acc_add_to a add;
    do y <- accrue_all (u + 1) rest liq dt18 scaling now recs';
    Some (a' :: fst y, snd y)
  end.

(* updateGivenPoolUptimeAccumulatorsToNow; liq = pool.GetLiquidity() of the pool object the caller holds *)
Definition update_uptime (w : rwd) (liq now : Z) : option rwd :=
  let dt := now - rw_last w in
  if dt =? 0 then Some w
  else if dt <? 0 then None
  else
    do ar <- (if liq <? P18 then Some (rw_up w, rw_recs w)
              else accrue_all 0 (rw_up w) liq (d_from_int dt) (rw_inc_scaling w) now (rw_recs w));
    let '(ups, recs) := ar in
    (* setIncentiveRecord: a record whose remaining amount reached zero is deleted *)
    Some (mkRwd (rw_tt w) (rw_spread w) ups (filter (fun r => 0 <? ir_remaining r) recs) (rw_next_inc w) now (rw_inc_scaling w)).

(* ---------- growth-outside trackers ---------- *)
(* makeInitialTickInfo (value part): all growth so far counts as having happened below the tick *)
Definition init_tracker (w : rwd) (cur i : Z) : rtick :=
  if i <=? cur then mkRT (ac_value (rw_spread w)) (map ac_value (rw_up w))
  else mkRT dc0 (map (fun _ => dc0) (rw_up w)).
(* GetTickInfo of a tick: the stored trackers, or the initial ones (the uptime synchronisation that makeInitialTickInfo
   performs on this path is modelled where it matters: ensure_tick) *)
Definition tt_read (w : rwd) (cur i : Z) : rtick :=
  match tt_get (rw_tt w) i with Some t => t | None => init_tracker w cur i end.
(* initOrUpdateTick, tracker part: a tick that is not stored yet is initialised, after the uptime accumulators were
   brought up to the block time *)
Definition ensure_tick (w : rwd) (cur liq now i : Z) : option rwd :=
  match tt_get (rw_tt w) i with
  | Some _ => Some w
  | None =>
    let sp := if i <=? cur then ac_value (rw_spread w) else dc0 in
    do w1 <- update_uptime w liq now;
    Some (set_tt w1 (tt_set (rw_tt w1) i (mkRT sp (rt_up (init_tracker w1 cur i)))))
  end.

(* crossTick: spread tracker := (accumulator + growth of the running swap) - tracker; uptime trackers := accumulator - tracker *)
Definition cross_trackers (w : rwd) (denom_in pending i : Z) : option rwd :=
  do t <- tt_get (rw_tt w) i;
  do g <- dc_add (ac_value (rw_spread w)) (dc_one denom_in pending);
  do sp <- dc_sub g (rt_spread t);
  do up <- omap2 dc_sub (map ac_value (rw_up w)) (rt_up t);
  Some (set_tt w (tt_set (rw_tt w) i (mkRT sp up))).

(* calculateSpreadRewardGrowth *)
Definition calc_spread_growth (target : Z) (tracker : dc) (cur : Z) (global : dc) (is_upper : bool) : option dc :=
  if (is_upper && (target <=? cur)) || (negb is_upper && (cur <? target)) then dc_sub global tracker else Some tracker.
Definition spread_growth_outside (w : rwd) (cur lo hi : Z) : option dc :=
  let g := ac_value (rw_spread w) in
  do above <- calc_spread_growth hi (rt_spread (tt_read w cur hi)) cur g true;
  do below <- calc_spread_growth lo (rt_spread (tt_read w cur lo)) cur g false;
  dc_add above below.

Definition uptime_growth_inside (w : rwd) (cur lo hi : Z) : option (list dc) :=
  let gl := map ac_value (rw_up w) in
  let tl := rt_up (tt_read w cur lo) in
  let tu := rt_up (tt_read w cur hi) in
  if cur <? lo then omap2 dc_safe_sub tl tu
  else if cur <? hi then do gm <- omap2 dc_sub gl tu; omap2 dc_safe_sub gm tl
  else omap2 dc_safe_sub tu tl.
Definition uptime_growth_outside (w : rwd) (cur lo hi : Z) : option (list dc) :=
  do ins <- uptime_growth_inside w cur lo hi;
  omap2 dc_sub (map ac_value (rw_up w)) ins.

(* ---------- position accumulator updates ---------- *)
Definition to_init_plus_outside (a : accum) (id : Z) (outside : dc) : option accum :=
  do r <- acc_get a id;
  do s <- dc_add (ar_snap r) outside;
  acc_set_position a id s.

Definition init_or_update_spread (w : rwd) (cur lo hi id delta : Z) : option rwd :=
  let a := rw_spread w in
  do out <- spread_growth_outside w cur lo hi;
  do ins <- dc_safe_sub (ac_value a) out;
  if negb (acc_has a id) then
    if negb (0 <? delta) then None else
    do a' <- acc_new_position a id delta ins; Some (set_spread_acc w a')
  else
    do a1 <- to_init_plus_outside a id out;
    do a2 <- acc_update_position a1 id delta ins;
    Some (set_spread_acc w a2).

Fixpoint upd_uptime_accs (ups : list accum) (ins outs : list dc) (id liquidity delta : Z) : option (list accum) :=
  match ups, ins, outs with
  | [], [], [] => Some []
  | a :: ups', i :: ins', o :: outs' =>
    do a' <- (if negb (acc_has a id) then
                if negb (0 <? delta) then None else acc_new_position a id liquidity i
              else do a1 <- to_init_plus_outside a id o; acc_update_position a1 id delta i);
    do r <- upd_uptime_accs ups' ins' outs' id liquidity delta;
    Some (a' :: r)
  | _, _, _ => None
  end.
(* liquidity = the position's liquidity after the update *)
Definition init_or_update_uptime (w : rwd) (cur pool_liq now lo hi id liquidity delta : Z) : option rwd :=
  do w1 <- update_uptime w pool_liq now;
  do ins <- uptime_growth_inside w1 cur lo hi;
  do outs <- uptime_growth_outside w1 cur lo hi;
  do ups <- upd_uptime_accs (rw_up w1) ins outs id liquidity delta;
  Some (set_up w1 ups).

(* updateAccumAndClaimRewards -> (accumulator, claimed integer coins, dust) *)
Definition update_accum_and_claim (a : accum) (id : Z) (outside : dc) : option (accum * (Z * Z) * dc) :=
  do a1 <- to_init_plus_outside a id outside;
  do c <- acc_claim_rewards a1 id;
  let '(a2, coins, dust) := c in
  if acc_has a2 id then
    do ins <- dc_safe_sub (ac_value a2) outside;
    do a3 <- acc_set_position a2 id ins;
    Some (a3, coins, dust)
  else Some (a2, coins, dust).

(* Int.ToLegacyDec().QuoTruncateMut(scalingFactor).TruncateInt() *)
Definition scale_down (amount scaling : Z) : option Z :=
  do _ <- nz scaling;
  do q <- dchk (d_quo_truncate (d_from_int amount) scaling);
  Some (d_truncate_int q).
Definition scale_down2 (c : Z * Z) (scaling : Z) : option (Z * Z) :=
  do x <- scale_down (fst c) scaling; do y <- scale_down (snd c) scaling; Some (x, y).

(* prepareClaimableSpreadRewards -> (state, claimed coins) *)
Definition prepare_claimable_spread (w : rwd) (spread_scaling cur lo hi id : Z) : option (rwd * (Z * Z)) :=
  let a := rw_spread w in
  if negb (acc_has a id) then None else
  do out <- spread_growth_outside w cur lo hi;
  do c <- update_accum_and_claim a id out;
  let '(a1, claimed_scaled, dust_scaled) := c in
  do cd <- (if spread_scaling =? P18 then Some (claimed_scaled, dust_scaled)
            else do cl <- scale_down2 claimed_scaled spread_scaling; Some (cl, dc0));
  let '(claimed, dust) := cd in
  do a2 <- (if negb (dc_is_zero dust) && negb (ac_total a1 =? 0) then
              do per <- dc_quo_dec_truncate dust (ac_total a1); acc_add_to a1 per
            else Some a1);
  Some (set_spread_acc w a2, claimed).

(* the loop of prepareClaimAllIncentivesForPosition over the uptime accumulators:
   -> (accumulators, collected, forfeited, scaled forfeited coins by uptime) *)
Fixpoint claim_uptimes (ups : list accum) (outs : list dc) (uts : list Z) (id age_ns scaling : Z)
  : option (list accum * (Z * Z) * (Z * Z) * list (Z * Z)) :=
  match ups, outs, uts with
  | [], [], [] => Some ([], (0, 0), (0, 0), [])
  | a :: ups', o :: outs', ut :: uts' =>
    do r <- claim_uptimes ups' outs' uts' id age_ns scaling;
    let '(ar, col, forf, byup) := r in
    if acc_has a id then
      do c <- update_accum_and_claim a id o;
      let '(a', scaled, _) := c in
      do coins <- scale_down2 scaled scaling;
      if age_ns <? ut then Some (a' :: ar, col, (fst forf + fst coins, snd forf + snd coins), scaled :: byup)
      else Some (a' :: ar, (fst col + fst coins, snd col + snd coins), forf, (0, 0) :: byup)
    else Some (a :: ar, col, forf, (0, 0) :: byup)
  | _, _, _ => None
  end.

(* prepareClaimAllIncentivesForPosition *)
Definition prepare_claim_all_incentives (w : rwd) (cur pool_liq now lo hi id join : Z)
  : option (rwd * (Z * Z) * (Z * Z) * list (Z * Z)) :=
  do w1 <- update_uptime w pool_liq now;
  let age_ns := (now - join) * 1000000000 in
  if age_ns <? 0 then None else
  do outs <- uptime_growth_outside w1 cur lo hi;
  do r <- claim_uptimes (rw_up w1) outs uptimes_ns id age_ns (rw_inc_scaling w1);
  let '(ups, col, forf, byup) := r in
  Some (set_up w1 ups, col, forf, byup).

(* redepositForfeitedIncentives with active liquidity >= 1: forfeited scaled coins / liquidity into each uptime accumulator *)
Fixpoint redeposit_accs (ups : list accum) (byup : list (Z * Z)) (liq : Z) : option (list accum) :=
  match ups, byup with
  | [], [] => Some []
  | a :: ups', f :: byup' =>
    do a' <- (if (fst f =? 0) && (snd f =? 0) then Some a else
              do _ <- nz liq;
              do x <- dchk (d_quo_truncate (d_from_int (fst f)) liq);
              do y <- dchk (d_quo_truncate (d_from_int (snd f)) liq);
              acc_add_to a (x, y));
    do r <- redeposit_accs ups' byup' liq;
    Some (a' :: r)
  | _, _ => None
  end.
Definition redeposit_forfeited (w : rwd) (byup : list (Z * Z)) (liq : Z) : option rwd :=
  do ups <- redeposit_accs (rw_up w) byup liq; Some (set_up w ups).

(* CreateIncentive, record part (after the accumulators were synchronised): id from the global counter *)
Definition add_incentive_record (w : rwd) (u denom amount rate start : Z) : rwd :=
  let r := mkIR (rw_next_inc w) u denom (d_from_int amount) rate start in
  mkRwd (rw_tt w) (rw_spread w) (rw_up w) (rw_recs w ++ [r]) (rw_next_inc w + 1) (rw_last w) (rw_inc_scaling w).

Definition rwd_init (time inc_scaling : Z) : rwd :=
  mkRwd [] acc_empty (map (fun _ => acc_empty) uptimes_ns) [] 1 time inc_scaling.
