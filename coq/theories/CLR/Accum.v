(* The subset of osmoutils/accum (accum.go, accum_helpers.go) and of sdk.DecCoins / sdk.Coins that the
   concentrated-liquidity reward code uses, function by function, as written.  Definitions only.

   Every DecCoins value that occurs in the reward code of ONE pool whose incentives are denominated in the
   pool's own two tokens has at most the two denominations (token0, token1); DecCoins keeps a sorted,
   zero-free, duplicate-free slice, so such a value is faithfully a pair (amount of token0, amount of token1)
   with "absent" = 0.  Amounts are raw LegacyDec mantissas (x 10^18, Base/DecModel.v); [None] = Go panic or
   error (LegacyDec range assertion, "negative coin amount", accumulator errors).  Position names are the
   position ids.  (The C15 model, coq/theories/C15/Model.v, covers the whole package on general DecCoins with
   the store; this file is the small value-level subset on pairs that the C08 / C01 proofs reason about.)

   sdk.DecCoins.Add / safeAdd          -> dc_add
   sdk.DecCoins.SafeSub (result only)  -> dc_safe_sub
   sdk.DecCoins.Sub                    -> dc_sub      (panics "negative coin amount")
   sdk.DecCoins.MulDec                 -> dc_mul_dec  (LegacyDec.Mul: half-even)
   sdk.DecCoins.QuoDecTruncate         -> dc_quo_dec_truncate
   sdk.DecCoins.TruncateDecimal        -> dc_truncate_decimal  -> (sdk.Coins, change DecCoins)
   sdk.DecCoins.IsZero                 -> dc_is_zero
   accum.AccumulatorObject (value, total shares) + the position records  -> accum
   accum.Record                        -> arec
   AddToAccumulator                    -> acc_add_to
   NewPositionIntervalAccumulation     -> acc_new_position
   GetTotalRewards                     -> acc_total_rewards
   AddToPositionIntervalAccumulation   -> acc_add_to_position
   RemoveFromPositionIntervalAccumulation -> acc_remove_from_position
   UpdatePositionIntervalAccumulation  -> acc_update_position
   SetPositionIntervalAccumulation     -> acc_set_position
   ClaimRewards                        -> acc_claim_rewards
   HasPosition / GetPosition           -> acc_get *)
From Coq Require Import ZArith Bool List.
Import ListNotations.
From Osmo Require Import Base.DecModel CL.TickMath CL.CLMath CL.CLSwap.
Open Scope Z_scope.

(* ---------- DecCoins over the two pool denominations ---------- *)
Definition dc := (Z * Z)%type.
Definition dc0 : dc := (0, 0).
Definition dc_is_zero (a : dc) : bool := (fst a =? 0) && (snd a =? 0).
Definition dc_any_neg (a : dc) : bool := (fst a <? 0) || (snd a <? 0).
(* a single DecCoin of denomination index d (0 / 1) as DecCoins *)
Definition dc_one (d : Z) (x : Z) : dc := if d =? 0 then (x, 0) else (0, x).
Definition dc_get (d : Z) (a : dc) : Z := if d =? 0 then fst a else snd a.

Definition dc_add (a b : dc) : option dc :=
  do x <- dchk (fst a + fst b); do y <- dchk (snd a + snd b); Some (x, y).
Definition dc_safe_sub (a b : dc) : option dc :=
  do x <- dchk (fst a - fst b); do y <- dchk (snd a - snd b); Some (x, y).
Definition dc_sub (a b : dc) : option dc :=
  do d <- dc_safe_sub a b; if dc_any_neg d then None else Some d.
Definition dc_mul_dec (a : dc) (d : Z) : option dc :=
  do x <- dchk (d_mul (fst a) d); do y <- dchk (d_mul (snd a) d); Some (x, y).
Definition dc_quo_dec_truncate (a : dc) (d : Z) : option dc :=
  do _ <- nz d;
  do x <- dchk (d_quo_truncate (fst a) d); do y <- dchk (d_quo_truncate (snd a) d); Some (x, y).
(* DecCoin.TruncateDecimal per denomination: NewCoin panics on a negative amount, NewDecCoinFromDec on a negative change *)
Definition trunc1 (x : Z) : option (Z * Z) :=
  let t := d_truncate_int x in let ch := x - d_from_int t in
  if (t <? 0) || (ch <? 0) then None else Some (t, ch).
(* -> (integer coins (amount0, amount1), change) *)
Definition dc_truncate_decimal (a : dc) : option ((Z * Z) * dc) :=
  do r0 <- trunc1 (fst a); do r1 <- trunc1 (snd a);
  Some ((fst r0, fst r1), (snd r0, snd r1)).

(* ---------- accumulator ---------- *)
Record arec := mkARec { ar_shares : Z; ar_snap : dc; ar_unclaimed : dc }.
Record accum := mkAcc { ac_value : dc; ac_total : Z; ac_recs : list (Z * arec) }.
Definition acc_empty : accum := mkAcc dc0 0 [].      (* MakeAccumulator *)

Fixpoint rec_get (m : list (Z * arec)) (k : Z) : option arec :=
  match m with
  | [] => None
  | (k', v) :: r => if k =? k' then Some v else rec_get r k
  end.
Fixpoint rec_set (m : list (Z * arec)) (k : Z) (v : arec) : list (Z * arec) :=
  match m with
  | [] => [(k, v)]
  | (k', v') :: r => if k <? k' then (k, v) :: m else if k =? k' then (k, v) :: r else (k', v') :: rec_set r k v
  end.
Fixpoint rec_remove (m : list (Z * arec)) (k : Z) : list (Z * arec) :=
  match m with
  | [] => []
  | (k', v') :: r => if k =? k' then r else (k', v') :: rec_remove r k
  end.
Definition acc_get (a : accum) (id : Z) : option arec := rec_get (ac_recs a) id.
Definition acc_has (a : accum) (id : Z) : bool := match acc_get a id with Some _ => true | None => false end.
Definition acc_with_recs (a : accum) (m : list (Z * arec)) : accum := mkAcc (ac_value a) (ac_total a) m.

Definition acc_add_to (a : accum) (amt : dc) : option accum :=
  do v <- dc_add (ac_value a) amt; Some (mkAcc v (ac_total a) (ac_recs a)).

(* NewPositionIntervalAccumulation(name, shares, snap, options): record overwritten, total shares += shares *)
Definition acc_new_position (a : accum) (id shares : Z) (snap : dc) : option accum :=
  do t <- dchk (ac_total a + shares);
  Some (mkAcc (ac_value a) t (rec_set (ac_recs a) id (mkARec shares snap dc0))).

(* GetTotalRewards: unclaimed + (value - snapshot) * shares; DecCoins.Sub panics on a negative difference *)
Definition acc_total_rewards (a : accum) (r : arec) : option dc :=
  do diff <- dc_sub (ac_value a) (ar_snap r);
  do acr <- dc_mul_dec diff (ar_shares r);
  dc_add (ar_unclaimed r) acr.

Definition acc_add_to_position (a : accum) (id new_shares : Z) (snap : dc) : option accum :=
  if negb (0 <? new_shares) then None else
  do r <- acc_get a id;
  do un <- acc_total_rewards a r;
  do sh <- dchk (ar_shares r + new_shares);
  do t <- dchk (ac_total a + new_shares);
  Some (mkAcc (ac_value a) t (rec_set (ac_recs a) id (mkARec sh snap un))).

Definition acc_remove_from_position (a : accum) (id n : Z) (snap : dc) : option accum :=
  if negb (0 <? n) then None else
  do r <- acc_get a id;
  if ar_shares r <? n then None else
  do un <- acc_total_rewards a r;
  do sh <- dchk (ar_shares r - n);
  do t <- dchk (ac_total a - n);
  Some (mkAcc (ac_value a) t (rec_set (ac_recs a) id (mkARec sh snap un))).

Definition acc_update_position (a : accum) (id delta : Z) (snap : dc) : option accum :=
  if delta =? 0 then None
  else if delta <? 0 then acc_remove_from_position a id (- delta) snap
  else acc_add_to_position a id delta snap.

Definition acc_set_position (a : accum) (id : Z) (snap : dc) : option accum :=
  do r <- acc_get a id;
  Some (acc_with_recs a (rec_set (ac_recs a) id (mkARec (ar_shares r) snap (ar_unclaimed r)))).

(* ClaimRewards -> (accumulator, integer coins, dust) *)
Definition acc_claim_rewards (a : accum) (id : Z) : option (accum * (Z * Z) * dc) :=
  do r <- acc_get a id;
  do tot <- acc_total_rewards a r;
  do td <- dc_truncate_decimal tot;
  let '(coins, dust) := td in
  let recs := if ar_shares r =? 0 then rec_remove (ac_recs a) id
              else rec_set (ac_recs a) id (mkARec (ar_shares r) (ac_value a) dc0) in
  Some (acc_with_recs a recs, coins, dust).
