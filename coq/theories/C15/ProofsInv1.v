(* C15: first invariant over histories - the position map mirrors the ghost liveness / share counts and the
   recorded total equals the sum of the position shares; failed calls have no effect. *)
From Coq Require Import ZArith List Bool Lia.
Import ListNotations.
From Osmo Require Import Base.DecModel C15.Model C15.Spec C15.ProofsMap C15.ProofsStep.
Open Scope Z_scope.

Definition pos_ok (tr : trace) (m : pmap) : Prop :=
  forall n, match p_get n m with
            | Some r => live tr n = true /\ r_shares r = shares tr n
            | None => live tr n = false
            end.

Definition Inv1 (tr : trace) (st : astore) : Prop :=
  exists c, a_content st = Some c /\ psorted (a_pos st) /\ c_total c = sum_shares (a_pos st) /\ pos_ok tr (a_pos st).

Definition old_shares (n : Z) (m : pmap) : Z := match p_get n m with Some r => r_shares r | None => 0 end.

Lemma inv1_set : forall tr tr' st c v t' n r',
  a_content st = Some c -> psorted (a_pos st) -> c_total c = sum_shares (a_pos st) -> pos_ok tr (a_pos st) ->
  t' = c_total c + r_shares r' - old_shares n (a_pos st) ->
  live tr' n = true -> r_shares r' = shares tr' n ->
  (forall m, m <> n -> live tr' m = live tr m /\ shares tr' m = shares tr m) ->
  Inv1 tr' (mkA (Some (mkC v t')) (p_set n r' (a_pos st))).
Proof.
  intros tr tr' st c v t' n r' Hc Hs Ht Hp Ht' Hl Hsh Hoth.
  exists (mkC v t'). cbn [a_content a_pos c_total]. split; [reflexivity|].
  split; [apply psorted_p_set; exact Hs|]. split.
  - rewrite sum_shares_p_set by exact Hs. unfold old_shares in Ht'. lia.
  - intros m. destruct (Z.eq_dec m n) as [->|Hne].
    + rewrite p_get_p_set_same. auto.
    + rewrite p_get_p_set_other by exact Hne. specialize (Hp m). destruct (Hoth m Hne) as [H1 H2].
      rewrite H1, H2. exact Hp.
Qed.

Lemma inv1_del : forall tr tr' st c v t' n,
  a_content st = Some c -> psorted (a_pos st) -> c_total c = sum_shares (a_pos st) -> pos_ok tr (a_pos st) ->
  t' = c_total c - old_shares n (a_pos st) ->
  live tr' n = false ->
  (forall m, m <> n -> live tr' m = live tr m /\ shares tr' m = shares tr m) ->
  Inv1 tr' (mkA (Some (mkC v t')) (p_del n (a_pos st))).
Proof.
  intros tr tr' st c v t' n Hc Hs Ht Hp Ht' Hl Hoth.
  exists (mkC v t'). cbn [a_content a_pos c_total]. split; [reflexivity|].
  split; [apply psorted_p_del; exact Hs|]. split.
  - rewrite sum_shares_p_del by exact Hs. unfold old_shares in Ht'. lia.
  - intros m. destruct (Z.eq_dec m n) as [->|Hne].
    + rewrite p_get_p_del_same by exact Hs. exact Hl.
    + rewrite p_get_p_del_other by exact Hne. specialize (Hp m). destruct (Hoth m Hne) as [H1 H2].
      rewrite H1, H2. exact Hp.
Qed.

Lemma inv1_same : forall tr tr' st c v,
  a_content st = Some c -> psorted (a_pos st) -> c_total c = sum_shares (a_pos st) -> pos_ok tr (a_pos st) ->
  (forall m, live tr' m = live tr m /\ shares tr' m = shares tr m) ->
  Inv1 tr' (mkA (Some (mkC v (c_total c))) (a_pos st)).
Proof.
  intros tr tr' st c v Hc Hs Ht Hp Hoth.
  exists (mkC v (c_total c)). cbn [a_content a_pos c_total]. repeat split; auto.
  intros m. specialize (Hp m). destruct (Hoth m) as [H1 H2]. rewrite H1, H2. exact Hp.
Qed.

(* a record of n rewritten with the same share count *)
Lemma inv1_upd : forall tr tr' st c n pos r',
  a_content st = Some c -> psorted (a_pos st) -> c_total c = sum_shares (a_pos st) -> pos_ok tr (a_pos st) ->
  p_get n (a_pos st) = Some pos -> r_shares r' = r_shares pos ->
  (forall m, live tr' m = live tr m /\ shares tr' m = shares tr m) ->
  Inv1 tr' (mkA (Some c) (p_set n r' (a_pos st))).
Proof.
  intros tr tr' st [cv ct] n pos r' Hc Hs Ht Hp Hg Hr Hoth. cbn [c_total] in Ht.
  pose proof (Hp n) as Hpn. rewrite Hg in Hpn. destruct Hpn as [Hl Hsh].
  apply (inv1_set tr tr' st (mkC cv ct) cv ct n r' Hc Hs Ht Hp).
  - unfold old_shares. rewrite Hg. cbn. lia.
  - rewrite (proj1 (Hoth n)). exact Hl.
  - rewrite (proj2 (Hoth n)). congruence.
  - intros m _. apply Hoth.
Qed.

(* a record of n with zero shares removed *)
Lemma inv1_del0 : forall tr tr' st c n pos,
  a_content st = Some c -> psorted (a_pos st) -> c_total c = sum_shares (a_pos st) -> pos_ok tr (a_pos st) ->
  p_get n (a_pos st) = Some pos -> r_shares pos = 0 ->
  live tr' n = false ->
  (forall m, m <> n -> live tr' m = live tr m /\ shares tr' m = shares tr m) ->
  Inv1 tr' (mkA (Some c) (p_del n (a_pos st))).
Proof.
  intros tr tr' st [cv ct] n pos Hc Hs Ht Hp Hg Hz Hl Hoth. cbn [c_total] in Ht.
  apply (inv1_del tr tr' st (mkC cv ct) cv ct n Hc Hs Ht Hp); auto.
  unfold old_shares. rewrite Hg. cbn. lia.
Qed.

(* events that are not successful leave every ghost quantity as it was *)
Lemma ghost_skip : forall o (x : res ret) tr, (forall r, x <> Ok r) ->
  (forall n, live ((o, x) :: tr) n = live tr n) /\ (forall n, shares ((o, x) :: tr) n = shares tr n).
Proof. intros o x tr Hx. destruct x as [r| |]; [exfalso; eapply Hx; reflexivity| |]; split; reflexivity. Qed.

Lemma eqb_neq_false : forall a b : Z, a <> b -> (a =? b) = false.
Proof. intros. apply Z.eqb_neq; assumption. Qed.

(* a share change of n by dl (Add / Remove / Update, plain or interval) *)
Lemma inv1_change : forall tr st c o x n dl sn unc pos v,
  a_content st = Some c -> psorted (a_pos st) -> c_total c = sum_shares (a_pos st) -> pos_ok tr (a_pos st) ->
  p_get n (a_pos st) = Some pos ->
  creates o n = None -> delta_of o n = Some dl ->
  (forall m, m <> n -> creates o m = None /\ delta_of o m = None) ->
  (forall m tr0, live ((o, Ok x) :: tr0) m = live tr0 m) ->
  Inv1 ((o, Ok x) :: tr)
       (mkA (Some (mkC v (c_total c + dl))) (p_set n (mkR (r_shares pos + dl) sn unc) (a_pos st))).
Proof.
  intros tr st c o x n dl sn unc pos v Hc Hs Ht Hp Hg Hcr Hdl Hoth Hlive.
  pose proof (Hp n) as Hpn. rewrite Hg in Hpn. destruct Hpn as [Hl Hsh].
  apply (inv1_set tr ((o, Ok x) :: tr) st c v _ n _ Hc Hs Ht Hp).
  - unfold old_shares. rewrite Hg. cbn. lia.
  - rewrite Hlive. exact Hl.
  - cbn [r_shares shares]. rewrite Hcr, Hdl. lia.
  - intros m Hne. split; [apply Hlive|]. cbn [shares]. destruct (Hoth m Hne) as [H1 H2]. rewrite H1, H2. reflexivity.
Qed.

Ltac zeq :=
  repeat match goal with
  | |- context [?a =? ?a] => rewrite Z.eqb_refl
  | H : ?a <> ?b |- context [?a =? ?b] => rewrite (eqb_neq_false a b H)
  | H : ?a <> ?b |- context [?b =? ?a] => rewrite (eqb_neq_false b a (not_eq_sym H))
  end.

Lemma inv1_add : forall tr st rv n s ia c o, (o = OAdd n s /\ ia = v_value rv \/ o = OAddIA n s ia) ->
  a_content st = Some c -> psorted (a_pos st) -> c_total c = sum_shares (a_pos st) -> pos_ok tr (a_pos st) ->
  (needs_value o = true -> v_value rv = c_value c) ->
  let r := add_to_position_ia st rv n s ia in
  match o_res r with
  | Panic => True
  | Err _ => o_st r = st
  | Ok _ => Inv1 ((o, Ok RUnit) :: tr) (o_st r)
  end.
Proof.
  intros tr st rv n s ia c o Ho Hc Hs Ht Hp Hv r.
  destruct (add_ia_cases st rv n s ia c Hc) as [Hout _]. fold r in Hout.
  destruct Hout as [H|[[e [H [H2 _]]]|[H [pos [unc [Hg [Hr [Hst _]]]]]]]]; rewrite H; auto.
  rewrite Hst.
  assert (Hcr : creates o n = None) by (destruct Ho as [[-> _]| ->]; reflexivity).
  assert (Hdl : delta_of o n = Some s) by (destruct Ho as [[-> _]| ->]; cbn; rewrite Z.eqb_refl; reflexivity).
  eapply inv1_change; eauto.
  - intros m Hne. destruct Ho as [[-> _]| ->]; cbn; zeq; auto.
  - intros m tr0. destruct Ho as [[-> _]| ->]; reflexivity.
Qed.

Lemma inv1_remove : forall tr st rv n s ia c o, (o = ORemove n s /\ ia = v_value rv \/ o = ORemoveIA n s ia) ->
  a_content st = Some c -> psorted (a_pos st) -> c_total c = sum_shares (a_pos st) -> pos_ok tr (a_pos st) ->
  let r := remove_from_position_ia st rv n s ia in
  match o_res r with
  | Panic => True
  | Err _ => o_st r = st
  | Ok _ => Inv1 ((o, Ok RUnit) :: tr) (o_st r)
  end.
Proof.
  intros tr st rv n s ia c o Ho Hc Hs Ht Hp r.
  destruct (remove_ia_cases st rv n s ia c Hc) as [Hout _]. fold r in Hout.
  destruct Hout as [H|[[e [H [H2 _]]]|[H [pos [unc [Hg [Hr [Hst _]]]]]]]]; rewrite H; auto.
  rewrite Hst.
  assert (Hcr : creates o n = None) by (destruct Ho as [[-> _]| ->]; reflexivity).
  assert (Hdl : delta_of o n = Some (- s)) by (destruct Ho as [[-> _]| ->]; cbn; rewrite Z.eqb_refl; reflexivity).
  eapply inv1_change; eauto.
  - intros m Hne. destruct Ho as [[-> _]| ->]; cbn; zeq; auto.
  - intros m tr0. destruct Ho as [[-> _]| ->]; reflexivity.
Qed.

Lemma inv1_update : forall tr st rv n s ia c o, (o = OUpdate n s /\ ia = v_value rv \/ o = OUpdateIA n s ia) ->
  a_content st = Some c -> psorted (a_pos st) -> c_total c = sum_shares (a_pos st) -> pos_ok tr (a_pos st) ->
  let r := update_position_ia st rv n s ia in
  match o_res r with
  | Panic => True
  | Err _ => o_st r = st
  | Ok _ => Inv1 ((o, Ok RUnit) :: tr) (o_st r)
  end.
Proof.
  intros tr st rv n s ia c o Ho Hc Hs Ht Hp r. subst r. unfold update_position_ia.
  assert (Hcr : creates o n = None) by (destruct Ho as [[-> _]| ->]; reflexivity).
  assert (Hdl : delta_of o n = Some s) by (destruct Ho as [[-> _]| ->]; cbn; rewrite Z.eqb_refl; reflexivity).
  assert (Hoth : forall m, m <> n -> creates o m = None /\ delta_of o m = None)
    by (intros m Hne; destruct Ho as [[-> _]| ->]; cbn; zeq; auto).
  assert (Hlv : forall m tr0, live ((o, Ok RUnit) :: tr0) m = live tr0 m)
    by (intros m tr0; destruct Ho as [[-> _]| ->]; reflexivity).
  destruct (s =? 0); [cbn; reflexivity|].
  destruct (s <? 0).
  - destruct (remove_ia_cases st rv n (- s) ia c Hc) as [Hout _].
    destruct Hout as [H|[[e [H [H2 _]]]|[H [pos [unc [Hg [Hr [Hst _]]]]]]]]; rewrite H; auto.
    rewrite Hst. replace (- - s) with s by lia. eapply inv1_change; eauto.
  - destruct (add_ia_cases st rv n s ia c Hc) as [Hout _].
    destruct Hout as [H|[[e [H [H2 _]]]|[H [pos [unc [Hg [Hr [Hst _]]]]]]]]; rewrite H; auto.
    rewrite Hst. eapply inv1_change; eauto.
Qed.

Lemma inv1_new : forall tr st rv n s ia c o, (o = ONew n s /\ ia = v_value rv \/ o = ONewIA n s ia) ->
  a_content st = Some c -> psorted (a_pos st) -> c_total c = sum_shares (a_pos st) -> pos_ok tr (a_pos st) ->
  live tr n = false ->
  let r := new_position_ia st rv n s ia in
  match o_res r with
  | Panic => True
  | Err _ => o_st r = st
  | Ok _ => Inv1 ((o, Ok RUnit) :: tr) (o_st r)
  end.
Proof.
  intros tr st rv n s ia c o Ho Hc Hs Ht Hp Hl r.
  destruct (new_ia_cases st rv n s ia c Hc) as [H|[H [Hst _]]]; fold r in H; rewrite H; auto.
  fold r in Hst. rewrite Hst.
  assert (Hold : old_shares n (a_pos st) = 0).
  { unfold old_shares. pose proof (Hp n) as Hpn. destruct (p_get n (a_pos st)); [destruct Hpn; congruence|reflexivity]. }
  eapply inv1_set with (tr := tr); eauto.
  - cbn [r_shares]. lia.
  - destruct Ho as [[-> _]| ->]; cbn; zeq; reflexivity.
  - destruct Ho as [[-> _]| ->]; cbn; zeq; reflexivity.
  - intros m Hne. destruct Ho as [[-> _]| ->]; cbn; zeq; auto.
Qed.

Lemma step_inv1 : forall tr st rv o, Inv1 tr st -> dom tr o -> recv_ok st rv o ->
  match o_res (step st rv o) with
  | Panic => True
  | Err _ => o_st (step st rv o) = st
  | Ok x => Inv1 ((o, Ok x) :: tr) (o_st (step st rv o))
  end.
Proof.
  intros tr st rv o [c [Hc [Hs [Ht Hp]]]] Hdom [c' [Hc' [Hv Htot]]].
  rewrite Hc in Hc'. injection Hc' as <-.
  destruct o; cbn [step lift_unit o_res o_st].
  - (* OGrow *)
    destruct (grow_cases st rv c0) as [H|[v [_ [H [Hst _]]]]]; rewrite H; auto.
    rewrite Hst. rewrite (Htot eq_refl). eapply inv1_same; eauto.
  - (* ONew *)
    destruct Hdom as [Hl _].
    pose proof (inv1_new tr st rv n s (v_value rv) c (ONew n s) (or_introl (conj eq_refl eq_refl)) Hc Hs Ht Hp Hl) as H.
    cbv zeta in H. unfold new_position. destruct (o_res (new_position_ia st rv n s (v_value rv))); auto.
  - (* ONewIA *)
    destruct Hdom as [Hl _].
    pose proof (inv1_new tr st rv n s ia c (ONewIA n s ia) (or_intror eq_refl) Hc Hs Ht Hp Hl) as H.
    cbv zeta in H. destruct (o_res (new_position_ia st rv n s ia)); auto.
  - (* OAdd *)
    pose proof (inv1_add tr st rv n s (v_value rv) c (OAdd n s) (or_introl (conj eq_refl eq_refl)) Hc Hs Ht Hp Hv) as H.
    cbv zeta in H. unfold add_to_position. destruct (o_res (add_to_position_ia st rv n s (v_value rv))); auto.
  - pose proof (inv1_add tr st rv n s ia c (OAddIA n s ia) (or_intror eq_refl) Hc Hs Ht Hp Hv) as H.
    cbv zeta in H. destruct (o_res (add_to_position_ia st rv n s ia)); auto.
  - pose proof (inv1_remove tr st rv n s (v_value rv) c (ORemove n s) (or_introl (conj eq_refl eq_refl)) Hc Hs Ht Hp) as H.
    cbv zeta in H. unfold remove_from_position. destruct (o_res (remove_from_position_ia st rv n s (v_value rv))); auto.
  - pose proof (inv1_remove tr st rv n s ia c (ORemoveIA n s ia) (or_intror eq_refl) Hc Hs Ht Hp) as H.
    cbv zeta in H. destruct (o_res (remove_from_position_ia st rv n s ia)); auto.
  - pose proof (inv1_update tr st rv n s (v_value rv) c (OUpdate n s) (or_introl (conj eq_refl eq_refl)) Hc Hs Ht Hp) as H.
    cbv zeta in H. unfold update_position. destruct (o_res (update_position_ia st rv n s (v_value rv))); auto.
  - pose proof (inv1_update tr st rv n s ia c (OUpdateIA n s ia) (or_intror eq_refl) Hc Hs Ht Hp) as H.
    cbv zeta in H. destruct (o_res (update_position_ia st rv n s ia)); auto.
  - (* OSetIA *)
    destruct (set_ia_cases st rv n ia) as [[_ [H [Hst _]]]|[pos [Hg [H [Hst _]]]]]; rewrite H; auto.
    rewrite Hst, Hc. eapply inv1_upd with (tr := tr); eauto.
  - (* OClaim *)
    destruct (claim_cases st rv n) as [_ [H|[[_ [H Hst]]|[pos [total [tc [dust [Hg [_ [_ [H Hst]]]]]]]]]]]; rewrite H; auto.
    rewrite Hst, Hc.
    pose proof (Hp n) as Hpn. rewrite Hg in Hpn. destruct Hpn as [Hl Hsh].
    destruct (r_shares pos =? 0) eqn:Ez.
    + apply Z.eqb_eq in Ez.
      eapply inv1_del0 with (tr := tr); eauto.
      * cbn [live]. rewrite Z.eqb_refl. rewrite <- Hsh, Ez. reflexivity.
      * intros m Hne. cbn [live shares creates delta_of]. zeq. auto.
    + apply Z.eqb_neq in Ez.
      eapply inv1_upd with (tr := tr); eauto.
      intros m. cbn [live shares creates delta_of]. destruct (Z.eq_dec n m) as [<-|Hne].
      * rewrite Z.eqb_refl. rewrite <- Hsh. rewrite (eqb_neq_false _ _ Ez). auto.
      * zeq. auto.
  - (* ODelete *)
    destruct (delete_cases st rv n c Hc Hs) as [H|[[_ [H [Hst _]]]|[pos [total [tc [dust [dc [ret [Hg [_ [_ [_ [_ [H [Hst _]]]]]]]]]]]]]]];
      rewrite H; auto.
    rewrite Hst. rewrite (Htot eq_refl).
    eapply inv1_del with (tr := tr); eauto.
    + unfold old_shares. rewrite Hg. reflexivity.
    + cbn [live]. rewrite Z.eqb_refl. reflexivity.
    + intros m Hne. cbn [live shares creates delta_of]. zeq. auto.
  - (* OAddUnclaimed *)
    destruct (add_unclaimed_cases st rv n c0) as [H|[[e [H [Hst _]]]|[pos [u [Hg [_ [_ [H [Hst _]]]]]]]]]; rewrite H; auto.
    rewrite Hst, Hc. eapply inv1_upd with (tr := tr); eauto.
Qed.

Lemma hist_inv1 : forall tr st, hist tr st -> Inv1 tr st.
Proof.
  induction 1 as [|tr st rv o Hh IH Hdom Hrv].
  - exists (mkC [] 0). cbn. repeat split; auto; intros n; reflexivity.
  - pose proof (step_inv1 tr st rv o IH Hdom Hrv) as H. unfold apply.
    destruct (o_res (step st rv o)) eqn:E; cbn [fst snd].
    + exact H.
    + rewrite H. destruct IH as [c [Hc [Hs [Ht Hp]]]]. exists c. repeat split; auto.
    + destruct IH as [c [Hc [Hs [Ht Hp]]]]. exists c. repeat split; auto.
Qed.
