(* C15: when are the store keys of different (accumulator, position) pairs different? *)
From Coq Require Import ZArith List Bool Lia.
Import ListNotations.
From Osmo Require Import Gen.C15_consts C15.Keys.
Open Scope Z_scope.

(* the separator is two copies of one character *)
Definition BAR : Z := 124.      (* '|' *)
Lemma key_separator_is_bar_bar : key_separator = [BAR; BAR].
Proof. reflexivity. Qed.

Lemma split_unique : forall (x : Z) a1 a2 r1 r2, ~ In x a1 -> ~ In x a2 ->
  a1 ++ x :: r1 = a2 ++ x :: r2 -> a1 = a2 /\ r1 = r2.
Proof.
  intros x; induction a1 as [|y a1 IH]; intros a2 r1 r2 H1 H2 E; destruct a2 as [|z a2]; cbn in *.
  - injection E as ->. auto.
  - injection E as -> _. exfalso. apply H2. left. reflexivity.
  - injection E as -> _. exfalso. apply H1. left. reflexivity.
  - injection E as -> E. destruct (IH a2 r1 r2) as [-> ->]; auto.
Qed.

(* two accumulators whose names contain no '|' never share a position key, whatever the position names are *)
Lemma position_keys_injective : forall a1 n1 a2 n2, ~ In BAR a1 -> ~ In BAR a2 ->
  format_position_prefix_key a1 n1 = format_position_prefix_key a2 n2 -> a1 = a2 /\ n1 = n2.
Proof.
  intros a1 n1 a2 n2 H1 H2 E. unfold format_position_prefix_key in E.
  apply app_inv_head in E. rewrite key_separator_is_bar_bar in E. cbn [app] in E.
  destruct (split_unique BAR a1 a2 _ _ H1 H2 E) as [-> E2]. injection E2 as ->. auto.
Qed.

Lemma accum_keys_injective : forall a1 a2, format_accum_prefix_key a1 = format_accum_prefix_key a2 -> a1 = a2.
Proof. intros a1 a2 E. unfold format_accum_prefix_key in E. apply app_inv_head in E. exact E. Qed.

Lemma app_same_length : forall (p1 p2 x y : bytes), length p1 = length p2 -> p1 ++ x = p2 ++ y -> p1 = p2.
Proof.
  induction p1 as [|a p1 IH]; intros p2 x y Hl E; destruct p2 as [|b p2]; cbn in *; try discriminate; auto.
  injection E as -> E. f_equal. apply (IH p2 x y); [lia|exact E].
Qed.

(* an accumulator's content key is never a position key *)
Lemma accum_key_not_position_key : forall a a' n, format_accum_prefix_key a <> format_position_prefix_key a' n.
Proof.
  intros a a' n E. unfold format_accum_prefix_key, format_position_prefix_key in E.
  assert (H : accum_prefix_key = position_prefix_key).
  { apply (app_same_length accum_prefix_key position_prefix_key a (a' ++ key_separator ++ n)); [reflexivity|exact E]. }
  vm_compute in H. discriminate.
Qed.

(* ... but names accepted by setAccumulator can collide: "acc|" / "p0" and "acc" / "|p0" *)
Definition w_acc1 : bytes := [97; 99; 99; 124].      (* "acc|" *)
Definition w_pos1 : bytes := [112; 48].              (* "p0"   *)
Definition w_acc2 : bytes := [97; 99; 99].           (* "acc"  *)
Definition w_pos2 : bytes := [124; 112; 48].         (* "|p0"  *)
Lemma position_keys_collide :
  accum_name_ok w_acc1 = true /\ accum_name_ok w_acc2 = true /\ w_acc1 <> w_acc2 /\
  format_position_prefix_key w_acc1 w_pos1 = format_position_prefix_key w_acc2 w_pos2.
Proof. repeat split; try (vm_compute; reflexivity). vm_compute. discriminate. Qed.
