(* C15: the statements of the property, derived from the two invariants. *)
From Coq Require Import ZArith List Bool Lia.
Import ListNotations.
From Osmo Require Import Base.DecModel C15.Model C15.Spec C15.ProofsMap C15.ProofsStep C15.ProofsInv1 C15.ProofsCoins C15.ProofsInv2 C15.ProofsSpec.
Open Scope Z_scope.

(* ---- ClaimRewards / DeletePosition pay trunc(claimable) / claimable ---- *)
Lemma claim_eq_spec : forall tr st rv n tc du, hist tr st -> recv_ok st rv (OClaim n) ->
  o_res (step st rv (OClaim n)) = Ok (RClaim tc du) ->
  sorted tc /\ canon du /\
  forall d, 0 <= claimable tr n d /\ amt d tc = Z.quot (claimable tr n d) P18 /\ amt d du = frac18 (claimable tr n d).
Proof.
  intros tr st rv n tc du Hh [c [Hc [Hv _]]] Hres.
  destruct (hist_inv tr st Hh) as [[c1 [Hc1 [Hps [Htot Hpos]]]] [c2 [Hc2 [Hval Hrec]]]].
  rewrite Hc in Hc1, Hc2. injection Hc1 as <-. injection Hc2 as <-.
  cbn [step o_res] in Hres.
  destruct (claim_cases st rv n) as [_ [H|[[_ [H _]]|[pos [total [tc' [dust [Hg [Hr [Ht [H _]]]]]]]]]]];
    rewrite H in Hres; try discriminate.
  injection Hres as <- <-.
  pose proof (Hpos n) as Hpn. rewrite Hg in Hpn. destruct Hpn as [_ Hsh].
  assert (Hval' : val_ok tr (v_value rv)) by (rewrite (Hv eq_refl); exact Hval).
  destruct (gtr_claimable tr n rv pos total Hval' (Hrec n pos Hg) Hsh Hr) as [[Ct _] Hcl].
  destruct (truncate_decimal_spec total tc' dust Ct Ht) as [S1 [C2 Hamt]].
  split; [exact S1|]. split; [exact C2|]. intros d. destruct (Hamt d) as [A1 [A2 A3]].
  rewrite <- Hcl. auto.
Qed.

Lemma delete_eq_spec : forall tr st rv n ret, hist tr st -> recv_ok st rv (ODelete n) ->
  o_res (step st rv (ODelete n)) = Ok (RDelete ret) ->
  canon ret /\ forall d, amt d ret = claimable tr n d /\ 0 <= claimable tr n d.
Proof.
  intros tr st rv n ret Hh [c [Hc [Hv _]]] Hres.
  destruct (hist_inv tr st Hh) as [[c1 [Hc1 [Hps [Htot Hpos]]]] [c2 [Hc2 [Hval Hrec]]]].
  rewrite Hc in Hc1, Hc2. injection Hc1 as <-. injection Hc2 as <-.
  cbn [step o_res] in Hres.
  destruct (delete_cases st rv n c Hc Hps) as [H|[[_ [H _]]|[pos [total [tc [dust [dc [ret' [Hg [Hr [Ht [Hd [Ha [H _]]]]]]]]]]]]]];
    rewrite H in Hres; try discriminate.
  injection Hres as <-.
  pose proof (Hpos n) as Hpn. rewrite Hg in Hpn. destruct Hpn as [_ Hsh].
  assert (Hval' : val_ok tr (v_value rv)) by (rewrite (Hv eq_refl); exact Hval).
  destruct (gtr_claimable tr n rv pos total Hval' (Hrec n pos Hg) Hsh Hr) as [[Ct _] Hcl].
  destruct (delete_return_spec total tc dust dc ret' Ct Ht Hd Ha) as [C Hamt].
  destruct (truncate_decimal_spec total tc dust Ct Ht) as [_ [_ Hnn]].
  split; [exact C|]. intros d. rewrite Hamt, <- Hcl. split; [reflexivity|apply (Hnn d)].
Qed.

(* ---- claiming resets exactly the claimer ---- *)
Lemma claim_frames_others : forall tr st rv n x, hist tr st -> recv_ok st rv (OClaim n) ->
  o_res (step st rv (OClaim n)) = Ok x ->
  let st' := o_st (step st rv (OClaim n)) in
  a_content st' = a_content st /\
  (forall m, m <> n -> p_get m (a_pos st') = p_get m (a_pos st)) /\
  exists c, a_content st = Some c /\
    p_get n (a_pos st') = if shares tr n =? 0 then None else Some (mkR (shares tr n) (c_value c) []).
Proof.
  intros tr st rv n x Hh [c [Hc [Hv _]]] Hres.
  destruct (hist_inv tr st Hh) as [[c1 [Hc1 [Hps [Htot Hpos]]]] _].
  cbn [step o_res o_st] in *.
  destruct (claim_cases st rv n) as [_ [H|[[_ [H _]]|[pos [total [tc' [dust [Hg [Hr [Ht [H Hst]]]]]]]]]]];
    rewrite H in Hres; try discriminate.
  rewrite Hst. cbn [a_content a_pos].
  pose proof (Hpos n) as Hpn. rewrite Hg in Hpn. destruct Hpn as [_ Hsh]. rewrite <- Hsh.
  split; [reflexivity|]. split.
  - intros m Hne. destruct (r_shares pos =? 0); [apply p_get_p_del_other|apply p_get_p_set_other]; exact Hne.
  - exists c. split; [exact Hc|]. destruct (r_shares pos =? 0).
    + apply p_get_p_del_same; exact Hps.
    + rewrite p_get_p_set_same, (Hv eq_refl). reflexivity.
Qed.

(* right after a successful claim nothing is claimable *)
Lemma claimable_after_claim : forall tr n x d, claimable ((OClaim n, Ok x) :: tr) n d = 0.
Proof.
  intros tr n x d. unfold claimable, intervals, pending. cbn [snapg resnaps ivals added creates claims growth grows].
  rewrite Z.eqb_refl. cbn [sum_dmul fold_right fst snd]. replace (0 + growth tr d - growth tr d) with 0 by lia.
  rewrite d_mul_0_l. reflexivity.
Qed.

(* a successful claim / delete of n leaves every other name's ghost quantities as they were *)
Lemma claim_ghost_frames : forall tr n m x d, m <> n ->
  claimable ((OClaim n, Ok x) :: tr) m d = claimable tr m d /\ shares ((OClaim n, Ok x) :: tr) m = shares tr m.
Proof.
  intros tr n m x d Hne. unfold claimable, intervals, pending.
  cbn [snapg resnaps ivals added creates claims delta_of growth grows adds_unclaimed shares].
  rewrite (eqb_neq_false n m (not_eq_sym Hne)). split; [|reflexivity]. replace (0 + growth tr d) with (growth tr d) by lia.
  replace (0 + added tr m d) with (added tr m d) by lia. reflexivity.
Qed.

(* ---- deletion, and claiming with no shares, remove the record ---- *)
Lemma delete_removes : forall tr st rv n x, hist tr st -> recv_ok st rv (ODelete n) ->
  o_res (step st rv (ODelete n)) = Ok x ->
  let st' := o_st (step st rv (ODelete n)) in
  p_get n (a_pos st') = None /\ (forall m, m <> n -> p_get m (a_pos st') = p_get m (a_pos st)) /\
  exists c c', a_content st = Some c /\ a_content st' = Some c' /\
               c_value c' = c_value c /\ c_total c' = c_total c - shares tr n.
Proof.
  intros tr st rv n x Hh [c [Hc [Hv Ht]]] Hres.
  destruct (hist_inv tr st Hh) as [[c1 [Hc1 [Hps [Htot Hpos]]]] _].
  cbn [step o_res o_st] in *.
  destruct (delete_cases st rv n c Hc Hps) as [H|[[_ [H _]]|[pos [total [tc [dust [dc [ret' [Hg [_ [_ [_ [_ [H [Hst _]]]]]]]]]]]]]]];
    rewrite H in Hres; try discriminate.
  rewrite Hst. cbn [a_content a_pos].
  pose proof (Hpos n) as Hpn. rewrite Hg in Hpn. destruct Hpn as [_ Hsh].
  split; [apply p_get_p_del_same; exact Hps|]. split; [intros m Hne; apply p_get_p_del_other; exact Hne|].
  exists c, (mkC (v_value rv) (v_total rv - r_shares pos)). cbn [c_value c_total].
  rewrite (Hv eq_refl), (Ht eq_refl), Hsh. auto.
Qed.

Lemma zero_claim_removes : forall tr st rv n x, hist tr st -> recv_ok st rv (OClaim n) ->
  o_res (step st rv (OClaim n)) = Ok x -> shares tr n = 0 ->
  p_get n (a_pos (o_st (step st rv (OClaim n)))) = None.
Proof.
  intros tr st rv n x Hh Hrv Hres Hz.
  destruct (claim_frames_others tr st rv n x Hh Hrv Hres) as [_ [_ [c [_ H]]]]. cbv zeta in H.
  rewrite Hz in H. exact H.
Qed.

(* ---- failed calls have no effect; the calls the property lists do fail; nothing else returns an error ---- *)
Lemma errors_have_no_effect : forall tr st rv o e, hist tr st -> dom tr o -> recv_ok st rv o ->
  o_res (step st rv o) = Err e -> o_st (step st rv o) = st.
Proof.
  intros tr st rv o e Hh Hd Hrv Hres.
  destruct (hist_inv tr st Hh) as [H1 _].
  pose proof (step_inv1 tr st rv o H1 Hd Hrv) as H. rewrite Hres in H. exact H.
Qed.

Lemma live_get : forall tr st n, Inv1 tr st ->
  (live tr n = false <-> p_get n (a_pos st) = None) /\
  (forall r, p_get n (a_pos st) = Some r -> r_shares r = shares tr n).
Proof.
  intros tr st n [c [_ [_ [_ Hpos]]]]. specialize (Hpos n).
  destruct (p_get n (a_pos st)) as [r|].
  - destruct Hpos as [Hl Hs]. split; [split; intros H; [congruence|discriminate]|]. intros r0 E. injection E as <-. exact Hs.
  - split; [tauto|]. intros r0 E; discriminate.
Qed.

Lemma claim_none : forall st rv n, p_get n (a_pos st) = None -> o_res (claim_rewards st rv n) = Err ENoPosition.
Proof. intros st rv n H. unfold claim_rewards, get_position. rewrite H. reflexivity. Qed.
Lemma delete_none : forall st rv n, p_get n (a_pos st) = None -> o_res (delete_position st rv n) = Err ENoPosition.
Proof. intros st rv n H. unfold delete_position, get_position. rewrite H. reflexivity. Qed.
Lemma set_ia_none : forall st rv n ia, p_get n (a_pos st) = None -> o_res (set_position_ia st rv n ia) = Err ENoPosition.
Proof. intros st rv n ia H. unfold set_position_ia, get_position. rewrite H. reflexivity. Qed.

Lemma nonneg_any_negative : forall c, ~ nonneg c <-> any_negative c = true.
Proof.
  intros c. pose proof (any_negative_nonneg c) as H. destruct (any_negative c); split; intros K; auto.
  - intros K2. apply H in K2. discriminate.
  - exfalso. apply K. apply H. reflexivity.
  - discriminate.
Qed.

Lemma lift_err : forall (o : out unit) e, o_res (lift_unit o) = Err e <-> o_res o = Err e.
Proof. intros o e. unfold lift_unit. cbn. destruct (o_res o); split; intros H; try discriminate; congruence. Qed.

Lemma res_unit_err : forall (o : out unit),
  (exists e, match o_res o with Ok _ => Ok RUnit | Err e0 => Err e0 | Panic => Panic end = Err e) <-> (exists e, o_res o = Err e).
Proof. intros o. destruct (o_res o); split; intros [e0 H]; try discriminate; eauto. Qed.

Lemma add_err_iff : forall tr st rv n s ia c, Inv1 tr st -> a_content st = Some c ->
  (exists e, o_res (add_to_position_ia st rv n s ia) = Err e) <-> (live tr n = false \/ s <= 0).
Proof.
  intros tr st rv n s ia c H1 Hc. destruct (add_ia_cases st rv n s ia c Hc) as [_ [A [_ B]]].
  destruct (live_get tr st n H1) as [L _]. split.
  - intros [e He]. destruct (A e He) as [K|K]; [right; exact K|left; apply L; exact K].
  - intros [K|K]; apply B; [right; apply L; exact K|left; exact K].
Qed.

Lemma remove_err_iff : forall tr st rv n s ia c, Inv1 tr st -> a_content st = Some c ->
  (exists e, o_res (remove_from_position_ia st rv n s ia) = Err e) <-> (live tr n = false \/ s <= 0 \/ shares tr n < s).
Proof.
  intros tr st rv n s ia c H1 Hc. destruct (remove_ia_cases st rv n s ia c Hc) as [_ [A [_ B]]].
  destruct (live_get tr st n H1) as [L S]. split.
  - intros [e He]. destruct (A e He) as [K|K]; [right; left; exact K|].
    destruct (p_get n (a_pos st)) as [pos|] eqn:Eg; [|left; apply L; reflexivity].
    right; right. rewrite <- (S pos eq_refl). exact K.
  - intros [K|[K|K]]; apply B.
    + right. apply L in K. rewrite K. exact I.
    + left; exact K.
    + right. destruct (p_get n (a_pos st)) as [pos|] eqn:Eg; [|exact I]. rewrite (S pos eq_refl). exact K.
Qed.

Lemma update_err_iff : forall tr st rv n s ia c, Inv1 tr st -> a_content st = Some c ->
  (exists e, o_res (update_position_ia st rv n s ia) = Err e) <->
  (live tr n = false \/ s = 0 \/ (s < 0 /\ shares tr n < - s)).
Proof.
  intros tr st rv n s ia c H1 Hc. unfold update_position_ia.
  destruct (s =? 0) eqn:E0.
  { apply Z.eqb_eq in E0. cbn. split; [auto|eauto]. }
  apply Z.eqb_neq in E0. destruct (s <? 0) eqn:E1.
  - apply Z.ltb_lt in E1. rewrite (remove_err_iff tr st rv n (- s) ia c H1 Hc). split.
    + intros [K|[K|K]]; [auto|lia|auto].
    + intros [K|[K|[_ K]]]; [auto|lia|auto].
  - apply Z.ltb_ge in E1. rewrite (add_err_iff tr st rv n s ia c H1 Hc). split.
    + intros [K|K]; [auto|lia].
    + intros [K|[K|[K _]]]; [auto|lia|lia].
Qed.

Lemma step_err_iff : forall tr st rv o, hist tr st -> dom tr o -> recv_ok st rv o ->
  (exists e, o_res (step st rv o) = Err e) <-> invalid tr o.
Proof.
  intros tr st rv o Hh Hd [c [Hc _]].
  destruct (hist_inv tr st Hh) as [H1 _].
  destruct o; cbn [step lift_unit o_res invalid]; rewrite ?res_unit_err.
  - destruct (grow_cases st rv c0) as [H|[v [_ [H _]]]]; rewrite H; split; [intros [e K]; discriminate|tauto|intros [e K]; discriminate|tauto].
  - unfold new_position. destruct (new_ia_cases st rv n s (v_value rv) c Hc) as [H|[H _]]; rewrite H;
      split; [intros [e K]; discriminate|tauto|intros [e K]; discriminate|tauto].
  - destruct (new_ia_cases st rv n s ia c Hc) as [H|[H _]]; rewrite H;
      split; [intros [e K]; discriminate|tauto|intros [e K]; discriminate|tauto].
  - apply add_err_iff with (c := c); assumption.
  - apply add_err_iff with (c := c); assumption.
  - apply remove_err_iff with (c := c); assumption.
  - apply remove_err_iff with (c := c); assumption.
  - apply update_err_iff with (c := c); assumption.
  - apply update_err_iff with (c := c); assumption.
  - destruct (live_get tr st n H1) as [L _]. rewrite L.
    destruct (set_ia_cases st rv n ia) as [[K [H _]]|[pos [K [H _]]]]; rewrite H; split; eauto; try discriminate.
    + intros [e E]; discriminate.
    + rewrite K; discriminate.
  - destruct (live_get tr st n H1) as [L _]. rewrite L. split.
    + intros [e E]. destruct (claim_cases st rv n) as [_ [H|[[K _]|[pos [total [tc [dust [_ [_ [_ [H _]]]]]]]]]]]; auto;
        rewrite H in E; discriminate.
    + intros K. rewrite (claim_none st rv n K). eauto.
  - destruct (live_get tr st n H1) as [L _]. rewrite L. destruct H1 as [c1 [_ [Hps _]]]. split.
    + intros [e E]. destruct (delete_cases st rv n c Hc Hps) as [H|[[K _]|[pos [total [tc [dust [dc [ret [_ [_ [_ [_ [_ [H _]]]]]]]]]]]]]]; auto;
        rewrite H in E; discriminate.
    + intros K. rewrite (delete_none st rv n K). eauto.
  - destruct (live_get tr st n H1) as [L _]. rewrite L, nonneg_any_negative. split.
    + intros [e E]. destruct (add_unclaimed_cases st rv n c0) as [H|[[e' [_ [_ [_ K]]]]|[pos [u [_ [_ [_ [H _]]]]]]]]; auto;
        rewrite H in E; discriminate.
    + apply add_unclaimed_err_iff.
Qed.

(* ---- histories made through freshly fetched AccumulatorObjects (GetAccumulator before every call) ---- *)
Definition fresh_rv (st : astore) : recv :=
  match a_content st with Some c => mkV (c_value c) (c_total c) | None => mkV [] 0 end.

Lemma fresh_recv_ok : forall tr st o, hist tr st -> recv_ok st (fresh_rv st) o.
Proof.
  intros tr st o Hh. destruct (hist_inv tr st Hh) as [[c [Hc _]] _].
  exists c. unfold fresh_rv. rewrite Hc. cbn. auto.
Qed.

Fixpoint run_fresh (ops : list op) (tr : trace) (st : astore) : trace * astore :=
  match ops with
  | [] => (tr, st)
  | o :: r => run_fresh r ((o, fst (apply st (fresh_rv st) o)) :: tr) (snd (apply st (fresh_rv st) o))
  end.
Fixpoint doms (ops : list op) (tr : trace) (st : astore) : Prop :=
  match ops with
  | [] => True
  | o :: r => dom tr o /\ doms r ((o, fst (apply st (fresh_rv st) o)) :: tr) (snd (apply st (fresh_rv st) o))
  end.

Lemma run_fresh_hist : forall ops tr st, hist tr st -> doms ops tr st ->
  hist (fst (run_fresh ops tr st)) (snd (run_fresh ops tr st)).
Proof.
  induction ops as [|o r IH]; intros tr st Hh Hd; [exact Hh|].
  destruct Hd as [Hd1 Hd2]. cbn [run_fresh]. apply IH; [|exact Hd2].
  apply histS; [exact Hh|exact Hd1|eapply fresh_recv_ok; exact Hh].
Qed.

(* ---- several accumulators in one store: a call on accumulator a leaves every other accumulator alone,
        and a call through a freshly fetched handle is [apply] with an admissible receiver ---- *)
Lemma acc_get_set_same : forall a s l, acc_get a (acc_set a s l) = s.
Proof.
  intros a s l; induction l as [|[k s'] l IH]; cbn.
  - rewrite Z.eqb_refl; reflexivity.
  - destruct (a =? k) eqn:E; cbn; [rewrite Z.eqb_refl; reflexivity|rewrite E; exact IH].
Qed.
Lemma acc_get_set_other : forall a b s l, b <> a -> acc_get b (acc_set a s l) = acc_get b l.
Proof.
  intros a b s l Hne; induction l as [|[k s'] l IH]; cbn.
  - rewrite (eqb_neq_false _ _ Hne). reflexivity.
  - destruct (a =? k) eqn:E; cbn.
    + apply Z.eqb_eq in E; subst. rewrite (eqb_neq_false _ _ Hne). reflexivity.
    + destruct (b =? k); [reflexivity|exact IH].
Qed.

Lemma wstep_frames_other_accumulators : forall w o a b,
  match o with WMake a' _ => a' = a | WOp a' _ _ _ => a' = a end -> b <> a ->
  acc_get b (w_accs (snd (wstep w o))) = acc_get b (w_accs w).
Proof.
  intros w o a b Ha Hne. destruct o as [a' bad|a' h fresh o]; subst a'; cbn [wstep].
  - destruct (make_accumulator _ bad) as [r st]. destruct r; cbn [snd w_accs]; auto using acc_get_set_other.
  - destruct (match (if fresh then None else h_get a h (w_handles w)) with Some rv => Ok rv | None => get_accumulator (acc_get a (w_accs w)) end) as [rv|e|];
      cbn [snd]; auto.
    destruct (o_res (step (acc_get a (w_accs w)) rv o)); cbn [snd w_accs]; auto using acc_get_set_other.
Qed.

Lemma wstep_fresh_is_apply : forall w a h o c, a_content (acc_get a (w_accs w)) = Some c ->
  let st := acc_get a (w_accs w) in
  fst (wstep w (WOp a h true o)) = fst (apply st (fresh_rv st) o) /\
  acc_get a (w_accs (snd (wstep w (WOp a h true o)))) = snd (apply st (fresh_rv st) o).
Proof.
  intros w a h o c Hc st. subst st. cbn [wstep]. unfold get_accumulator, fresh_rv, apply. rewrite Hc.
  destruct (o_res (step (acc_get a (w_accs w)) (mkV (c_value c) (c_total c)) o)) eqn:E; cbn [fst snd w_accs];
    rewrite ?acc_get_set_same; auto.
Qed.

(* ---- the world (several accumulators, long-lived handles) stays inside [hist] ---- *)
(* the property's domain read off the state instead of the trace *)
Definition sdom (st : astore) (o : op) : Prop :=
  match o with
  | OGrow c => sorted c /\ nonneg c
  | ONew n s => p_get n (a_pos st) = None /\ 0 <= s
  | ONewIA n s ia => p_get n (a_pos st) = None /\ 0 <= s /\ sorted ia
  | OAddIA _ _ ia | ORemoveIA _ _ ia | OUpdateIA _ _ ia | OSetIA _ ia => sorted ia
  | OAddUnclaimed _ c => sorted c
  | _ => True
  end.

Lemma sdom_dom : forall tr st o, hist tr st -> sdom st o -> dom tr o.
Proof.
  intros tr st o Hh Hs. destruct (hist_inv tr st Hh) as [H1 _].
  destruct o; cbn in *; auto.
  - destruct Hs as [Hg Hz]. split; [|exact Hz]. apply (proj1 (live_get tr st n H1)). exact Hg.
  - destruct Hs as [Hg Hz]. split; [|exact Hz]. apply (proj1 (live_get tr st n H1)). exact Hg.
Qed.

(* every accumulator of the world is either not yet made (nothing stored) or the end of some history *)
Definition wgood (w : world) : Prop :=
  forall a, acc_get a (w_accs w) = empty_astore \/ exists tr, hist tr (acc_get a (w_accs w)).

(* the receiver a world call uses: the stored handle, or a freshly fetched one *)
Definition used_rv (w : world) (a h : Z) (fresh : bool) : option recv :=
  match (if fresh then None else h_get a h (w_handles w)) with
  | Some rv => Some rv
  | None => match get_accumulator (acc_get a (w_accs w)) with Ok rv => Some rv | _ => None end
  end.

Definition wadmissible (w : world) (o : wop) : Prop :=
  match o with
  | WMake _ _ => True
  | WOp a h fresh o' =>
      forall rv, used_rv w a h fresh = Some rv ->
                 recv_ok (acc_get a (w_accs w)) rv o' /\ sdom (acc_get a (w_accs w)) o'
  end.

Lemma init_wgood : wgood init_world.
Proof. intros a. left. reflexivity. Qed.

Lemma wstep_wgood : forall w o, wgood w -> wadmissible w o -> wgood (snd (wstep w o)).
Proof.
  intros w o Hg Ha b. destruct o as [a bad|a h fresh o].
  - cbn [wstep]. destruct bad.
    + cbn. apply Hg.
    + cbn [make_accumulator]. unfold make_accumulator.
      destruct (a_content (acc_get a (w_accs w))) eqn:Ec; cbn [snd]; [apply Hg|].
      cbn [w_accs]. destruct (Z.eq_dec b a) as [->|Hne].
      * rewrite acc_get_set_same. right. exists [].
        destruct (Hg a) as [He|[tr Hh]].
        -- rewrite He. exact hist0.
        -- destruct (hist_inv1 tr _ Hh) as [c [Hc _]]. congruence.
      * rewrite acc_get_set_other by exact Hne. apply Hg.
  - cbn [wadmissible] in Ha. unfold used_rv in Ha. cbn [wstep].
    destruct (if fresh then None else h_get a h (w_handles w)) as [rv|] eqn:Eh.
    + destruct (Ha rv eq_refl) as [Hrv Hsd].
      destruct (Hg a) as [He|[tr Hh]].
      { destruct Hrv as [c [Hc _]]. rewrite He in Hc. discriminate. }
      pose proof (histS tr _ rv o Hh (sdom_dom tr _ o Hh Hsd) Hrv) as Hn. unfold apply in Hn.
      destruct (o_res (step (acc_get a (w_accs w)) rv o)) eqn:Er; cbn [snd w_accs fst] in *.
      * destruct (Z.eq_dec b a) as [->|Hne]; [rewrite acc_get_set_same; right; eauto|rewrite acc_get_set_other by exact Hne; apply Hg].
      * destruct (Z.eq_dec b a) as [->|Hne]; [rewrite acc_get_set_same; right; eauto|rewrite acc_get_set_other by exact Hne; apply Hg].
      * apply Hg.
    + destruct (get_accumulator (acc_get a (w_accs w))) as [rv|e|] eqn:Eg; cbn [snd]; try apply Hg.
      destruct (Ha rv eq_refl) as [Hrv Hsd].
      destruct (Hg a) as [He|[tr Hh]].
      { destruct Hrv as [c [Hc _]]. rewrite He in Hc. discriminate. }
      pose proof (histS tr _ rv o Hh (sdom_dom tr _ o Hh Hsd) Hrv) as Hn. unfold apply in Hn.
      destruct (o_res (step (acc_get a (w_accs w)) rv o)) eqn:Er; cbn [snd w_accs fst] in *.
      * destruct (Z.eq_dec b a) as [->|Hne]; [rewrite acc_get_set_same; right; eauto|rewrite acc_get_set_other by exact Hne; apply Hg].
      * destruct (Z.eq_dec b a) as [->|Hne]; [rewrite acc_get_set_same; right; eauto|rewrite acc_get_set_other by exact Hne; apply Hg].
      * apply Hg.
Qed.

Fixpoint wrun (w : world) (ops : list wop) : world :=
  match ops with [] => w | o :: r => wrun (snd (wstep w o)) r end.
Fixpoint wadmissible_all (w : world) (ops : list wop) : Prop :=
  match ops with [] => True | o :: r => wadmissible w o /\ wadmissible_all (snd (wstep w o)) r end.

Lemma wrun_wgood : forall ops w, wgood w -> wadmissible_all w ops -> wgood (wrun w ops).
Proof.
  induction ops as [|o r IH]; intros w Hg Ha; [exact Hg|].
  destruct Ha as [Ha1 Ha2]. cbn [wrun]. apply IH; [apply wstep_wgood; assumption|exact Ha2].
Qed.

(* ---- plain API: a record's reference point never exceeds the accumulator value (so DecCoins.Sub cannot go
        negative there, the check the code's TODO asks for is not needed) ---- *)
Definition grow_nonneg (tr : trace) : Prop := Forall (fun e => forall d, 0 <= grows (fst e) d) tr.

Lemma amt_nonneg : forall c d, nonneg c -> 0 <= amt d c.
Proof.
  induction c as [|x c IH]; intros d H; cbn [amt]; [lia|]. inversion H; subst.
  destruct (fst x =? d); [assumption|apply IH; assumption].
Qed.

Lemma hist_grow_nonneg : forall tr st, hist tr st -> grow_nonneg tr.
Proof.
  induction 1 as [|tr st rv o Hh IH Hdom Hrv]; [constructor|].
  constructor; [|exact IH]. intros d. cbn [fst]. destruct o; cbn [grows]; try lia.
  destruct Hdom as [_ Hn]. apply amt_nonneg; exact Hn.
Qed.

Lemma since_nonneg : forall tr, grow_nonneg tr -> forall n d, 0 <= since tr n d.
Proof.
  induction tr as [|[o x] tr IH]; intros Hg n d; cbn [since]; [lia|].
  inversion Hg as [|? ? H1 H2]; subst. specialize (IH H2 n d). cbn [fst] in H1. specialize (H1 d).
  destruct x; try exact IH. destruct (boundary o n); lia.
Qed.

Lemma plain_snapshot_below_value : forall tr st, hist tr st -> plain tr ->
  forall n r c, p_get n (a_pos st) = Some r -> a_content st = Some c ->
  forall d, amt d (r_snap r) <= amt d (c_value c).
Proof.
  intros tr st Hh Hp n r c Hg Hc d.
  destruct (hist_inv tr st Hh) as [_ [c2 [Hc2 [[_ Hval] Hrec]]]].
  rewrite Hc in Hc2. injection Hc2 as <-.
  destruct (Hrec n r Hg) as [_ [_ [Hsn _]]]. rewrite Hsn, Hval.
  pose proof (pending_since tr Hp n d) as E. unfold pending in E.
  pose proof (since_nonneg tr (hist_grow_nonneg tr st Hh) n d). lia.
Qed.
