(* C15: lemmas on the position map (sorted association list) and the range-checked decimals. *)
From Coq Require Import ZArith List Bool Lia.
Import ListNotations.
From Osmo Require Import Base.DecModel C15.Model C15.Spec.
Open Scope Z_scope.

Lemma chk_some : forall z r, chk z = Some r -> r = z.
Proof. unfold chk; intros z r; destruct (d_fits z); congruence. Qed.
Lemma dec_add_some : forall a b r, dec_add a b = Some r -> r = a + b.
Proof. intros a b r H; apply chk_some in H; exact H. Qed.
Lemma dec_sub_some : forall a b r, dec_sub a b = Some r -> r = a - b.
Proof. intros a b r H; apply chk_some in H; exact H. Qed.
Lemma dec_mul_some : forall a b r, dec_mul a b = Some r -> r = d_mul a b.
Proof. intros a b r H; apply chk_some in H; exact H. Qed.

(* keys strictly increasing *)
Fixpoint psorted (m : pmap) : Prop :=
  match m with
  | [] => True
  | (k, _) :: r => match r with [] => True | (k', _) :: _ => k < k' end /\ psorted r
  end.

Definition lbound (k : Z) (m : pmap) : Prop := Forall (fun kr => k < fst kr) m.

Lemma psorted_lbound : forall k r m, psorted ((k, r) :: m) -> lbound k m.
Proof.
  intros k r m; revert k r; induction m as [|[k' r'] m IH]; intros k r H; [constructor|].
  destruct H as [H1 H2]. constructor; [exact H1|].
  specialize (IH k' r' H2). unfold lbound in *. rewrite Forall_forall in *. intros x Hx.
  specialize (IH x Hx). cbn in *. lia.
Qed.

Lemma psorted_cons : forall k r m, lbound k m -> psorted m -> psorted ((k, r) :: m).
Proof.
  intros k r m Hb Hs. destruct m as [|[k' r'] m]; cbn; [auto|].
  split; [|exact Hs]. inversion Hb; subst; cbn in *; lia.
Qed.

Lemma psorted_tail : forall x m, psorted (x :: m) -> psorted m.
Proof. intros [k r] m H. destruct m; [exact I|]. destruct H; assumption. Qed.

Lemma p_get_lbound : forall n m, lbound n m -> p_get n m = None.
Proof.
  intros n m; induction m as [|[k r] m IH]; intros H; [reflexivity|].
  inversion H; subst; cbn in *. destruct (n =? k) eqn:E; [apply Z.eqb_eq in E; lia|]. apply IH; assumption.
Qed.

Lemma lbound_weaken : forall k k' m, k' <= k -> lbound k m -> lbound k' m.
Proof. unfold lbound; intros k k' m Hle H. rewrite Forall_forall in *. intros x Hx; specialize (H x Hx); lia. Qed.

Lemma lbound_p_set : forall j n r m, j < n -> lbound j m -> lbound j (p_set n r m).
Proof.
  intros j n r m Hj; induction m as [|[k r'] m IH]; intros Hb; cbn.
  - constructor; [cbn; lia|constructor].
  - inversion Hb; subst; cbn in *.
    destruct (n <? k); [constructor; [cbn; lia|exact Hb]|].
    destruct (n =? k); [constructor; [cbn; lia|assumption]|].
    constructor; [cbn; lia|apply IH; assumption].
Qed.

Lemma psorted_p_set : forall n r m, psorted m -> psorted (p_set n r m).
Proof.
  intros n r m; induction m as [|[k r'] m IH]; intros Hs; cbn; [auto|].
  destruct (n <? k) eqn:E1.
  - apply Z.ltb_lt in E1. apply psorted_cons; [|exact Hs].
    constructor; [cbn; lia|]. apply lbound_weaken with k; [lia|]. eapply psorted_lbound; exact Hs.
  - apply Z.ltb_ge in E1. destruct (n =? k) eqn:E2.
    + apply Z.eqb_eq in E2; subst. apply psorted_cons; [eapply psorted_lbound; exact Hs|eapply psorted_tail; exact Hs].
    + apply Z.eqb_neq in E2. apply psorted_cons.
      * apply lbound_p_set; [lia|eapply psorted_lbound; exact Hs].
      * apply IH. eapply psorted_tail; exact Hs.
Qed.

Lemma p_get_p_set_same : forall n r m, p_get n (p_set n r m) = Some r.
Proof.
  intros n r m; induction m as [|[k r'] m IH]; cbn.
  - rewrite Z.eqb_refl; reflexivity.
  - destruct (n <? k) eqn:E1; [cbn; rewrite Z.eqb_refl; reflexivity|].
    destruct (n =? k) eqn:E2; cbn; [rewrite Z.eqb_refl; reflexivity|]. rewrite E2. exact IH.
Qed.

Lemma p_get_p_set_other : forall j n r m, j <> n -> p_get j (p_set n r m) = p_get j m.
Proof.
  intros j n r m Hne; induction m as [|[k r'] m IH]; cbn.
  - destruct (j =? n) eqn:E; [apply Z.eqb_eq in E; contradiction|reflexivity].
  - destruct (n <? k) eqn:E1.
    + cbn. destruct (j =? n) eqn:E; [apply Z.eqb_eq in E; contradiction|reflexivity].
    + destruct (n =? k) eqn:E2.
      * apply Z.eqb_eq in E2; subst. cbn.
        destruct (j =? k) eqn:E; [apply Z.eqb_eq in E; contradiction|reflexivity].
      * cbn. destruct (j =? k); [reflexivity|exact IH].
Qed.

Lemma sum_shares_cons : forall k r m, sum_shares ((k, r) :: m) = r_shares r + sum_shares m.
Proof. reflexivity. Qed.

Lemma sum_shares_p_set : forall n r m, psorted m ->
  sum_shares (p_set n r m) = sum_shares m + r_shares r - match p_get n m with Some r0 => r_shares r0 | None => 0 end.
Proof.
  intros n r m; induction m as [|[k r'] m IH]; intros Hs; cbn [p_set p_get].
  - cbn. lia.
  - destruct (n <? k) eqn:E1.
    + apply Z.ltb_lt in E1. rewrite !sum_shares_cons.
      destruct (n =? k) eqn:E2; [apply Z.eqb_eq in E2; lia|].
      rewrite (p_get_lbound n m); [lia|].
      apply lbound_weaken with k; [lia|eapply psorted_lbound; exact Hs].
    + destruct (n =? k) eqn:E2; rewrite !sum_shares_cons; [lia|].
      rewrite IH; [|eapply psorted_tail; exact Hs]. lia.
Qed.

Lemma lbound_p_del : forall j n m, lbound j m -> lbound j (p_del n m).
Proof.
  intros j n m; induction m as [|[k r'] m IH]; intros Hb; cbn; [constructor|].
  inversion Hb; subst. destruct (n =? k); [assumption|]. constructor; [assumption|apply IH; assumption].
Qed.

Lemma psorted_p_del : forall n m, psorted m -> psorted (p_del n m).
Proof.
  intros n m; induction m as [|[k r'] m IH]; intros Hs; cbn; [auto|].
  destruct (n =? k); [eapply psorted_tail; exact Hs|].
  apply psorted_cons; [apply lbound_p_del; eapply psorted_lbound; exact Hs|apply IH; eapply psorted_tail; exact Hs].
Qed.

Lemma p_get_p_del_same : forall n m, psorted m -> p_get n (p_del n m) = None.
Proof.
  intros n m; induction m as [|[k r'] m IH]; intros Hs; cbn; [reflexivity|].
  destruct (n =? k) eqn:E.
  - apply Z.eqb_eq in E; subst. apply p_get_lbound. eapply psorted_lbound; exact Hs.
  - cbn. rewrite E. apply IH. eapply psorted_tail; exact Hs.
Qed.

Lemma p_get_p_del_other : forall j n m, j <> n -> p_get j (p_del n m) = p_get j m.
Proof.
  intros j n m Hne; induction m as [|[k r'] m IH]; cbn; [reflexivity|].
  destruct (n =? k) eqn:E.
  - apply Z.eqb_eq in E; subst. destruct (j =? k) eqn:E2; [apply Z.eqb_eq in E2; contradiction|reflexivity].
  - cbn. destruct (j =? k); [reflexivity|exact IH].
Qed.

Lemma sum_shares_p_del : forall n m, psorted m ->
  sum_shares (p_del n m) = sum_shares m - match p_get n m with Some r0 => r_shares r0 | None => 0 end.
Proof.
  intros n m; induction m as [|[k r'] m IH]; intros Hs; cbn [p_del p_get]; [cbn; lia|].
  destruct (n =? k) eqn:E; rewrite !sum_shares_cons; [lia|].
  rewrite IH; [|eapply psorted_tail; exact Hs]. lia.
Qed.

Lemma p_del_absent : forall n m, p_get n m = None -> p_del n m = m.
Proof.
  intros n m; induction m as [|[k r'] m IH]; intros H; cbn in *; [reflexivity|].
  destruct (n =? k); [discriminate|]. rewrite IH; auto.
Qed.

Lemma p_del_p_set : forall n r m, psorted m -> p_del n (p_set n r m) = p_del n m.
Proof.
  intros n r m; induction m as [|[k r'] m IH]; intros Hs; cbn.
  - rewrite Z.eqb_refl. reflexivity.
  - destruct (n <? k) eqn:E1.
    + cbn. rewrite Z.eqb_refl. apply Z.ltb_lt in E1.
      destruct (n =? k) eqn:E2; [apply Z.eqb_eq in E2; lia|].
      rewrite p_del_absent; [reflexivity|]. apply p_get_lbound.
      apply lbound_weaken with k; [lia|eapply psorted_lbound; exact Hs].
    + destruct (n =? k) eqn:E2; cbn; [rewrite Z.eqb_refl; reflexivity|]. rewrite E2, IH; [reflexivity|].
      eapply psorted_tail; exact Hs.
Qed.
