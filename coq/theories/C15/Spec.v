(* C15 ghost specification: what the property says, defined directly on the history of calls.
   A history (trace) is the list of calls made on one accumulator, newest first, each with its result;
   only calls that returned successfully ([Ok]) count.  Nothing here looks at the model's state. *)
From Coq Require Import ZArith List Bool Lia.
Import ListNotations.
From Osmo Require Import Base.DecModel C15.Model.
Open Scope Z_scope.

Definition event := (op * res ret)%type.
Definition trace := list event.             (* newest first *)

(* amount of denomination d in a coin list *)
Fixpoint amt (d : Z) (c : coins) : Z :=
  match c with
  | [] => 0
  | x :: r => if fst x =? d then snd x else amt d r
  end.

(* ---- classification of calls with respect to a name n ---- *)
Definition creates (o : op) (n : Z) : option Z :=
  match o with
  | ONew m s | ONewIA m s _ => if m =? n then Some s else None
  | _ => None
  end.
(* signed share change *)
Definition delta_of (o : op) (n : Z) : option Z :=
  match o with
  | OAdd m s | OAddIA m s _ | OUpdate m s | OUpdateIA m s _ => if m =? n then Some s else None
  | ORemove m s | ORemoveIA m s _ => if m =? n then Some (- s) else None
  | _ => None
  end.
Definition claims (o : op) (n : Z) : bool :=
  match o with OClaim m | ODelete m => m =? n | _ => false end.
(* the snapshot a call gives to n: [Some None] = the accumulator's current value, [Some (Some ia)] = the
   caller-supplied interval accumulation (after a deletion there is no record: the reference point is immaterial) *)
Definition resnaps (o : op) (n : Z) : option (option coins) :=
  match o with
  | ONew m _ | OAdd m _ | ORemove m _ | OUpdate m _ | OClaim m | ODelete m => if m =? n then Some None else None
  | ONewIA m _ ia | OAddIA m _ ia | ORemoveIA m _ ia | OUpdateIA m _ ia | OSetIA m ia =>
      if m =? n then Some (Some ia) else None
  | _ => None
  end.
Definition grows (o : op) (d : Z) : Z := match o with OGrow c => amt d c | _ => 0 end.
Definition adds_unclaimed (o : op) (n d : Z) : Z :=
  match o with OAddUnclaimed m c => if m =? n then amt d c else 0 | _ => 0 end.

(* ---- shares held, liveness, total growth ---- *)
Fixpoint shares (tr : trace) (n : Z) : Z :=
  match tr with
  | [] => 0
  | (o, Ok _) :: tr' =>
      match creates o n with
      | Some s => s
      | None => match delta_of o n with Some dl => shares tr' n + dl | None => shares tr' n end
      end
  | _ :: tr' => shares tr' n
  end.

Fixpoint live (tr : trace) (n : Z) : bool :=
  match tr with
  | [] => false
  | (o, Ok _) :: tr' =>
      match o with
      | ONew m _ | ONewIA m _ _ => if m =? n then true else live tr' n
      | ODelete m => if m =? n then false else live tr' n
      | OClaim m => if (m =? n) && (shares tr' n =? 0) then false else live tr' n
      | _ => live tr' n
      end
  | _ :: tr' => live tr' n
  end.

Fixpoint growth (tr : trace) (d : Z) : Z :=
  match tr with
  | [] => 0
  | (o, Ok _) :: tr' => grows o d + growth tr' d
  | _ :: tr' => growth tr' d
  end.

(* ---- general form (interval API included): the reference point of n's open interval ---- *)
Fixpoint snapg (tr : trace) (n d : Z) : Z :=
  match tr with
  | [] => 0
  | (o, Ok _) :: tr' =>
      match resnaps o n with
      | Some None => growth tr' d
      | Some (Some ia) => amt d ia
      | None => snapg tr' n d
      end
  | _ :: tr' => snapg tr' n d
  end.
Definition pending (tr : trace) (n d : Z) : Z := growth tr d - snapg tr n d.

(* closed intervals since the last reset: (growth credited in the interval, shares held during it) *)
Fixpoint ivals (tr : trace) (n d : Z) : list (Z * Z) :=
  match tr with
  | [] => []
  | (o, Ok _) :: tr' =>
      match creates o n with
      | Some _ => []
      | None =>
        if claims o n then []
        else match delta_of o n with
             | Some _ => (pending tr' n d, shares tr' n) :: ivals tr' n d
             | None => ivals tr' n d
             end
      end
  | _ :: tr' => ivals tr' n d
  end.
Fixpoint added (tr : trace) (n d : Z) : Z :=
  match tr with
  | [] => 0
  | (o, Ok _) :: tr' =>
      match creates o n with
      | Some _ => 0
      | None => if claims o n then 0 else adds_unclaimed o n d + added tr' n d
      end
  | _ :: tr' => added tr' n d
  end.

Definition sum_dmul (l : list (Z * Z)) : Z := fold_right (fun gs acc => d_mul (fst gs) (snd gs) + acc) 0 l.
Definition sum_exact (l : list (Z * Z)) : Z := fold_right (fun gs acc => fst gs * snd gs + acc) 0 l.

(* all intervals of n since its last reset, the open one first *)
Definition intervals (tr : trace) (n d : Z) : list (Z * Z) := (pending tr n d, shares tr n) :: ivals tr n d.
(* what n can claim (raw 18-decimal units): sum over the intervals of MulDec(growth, shares) + explicitly added *)
Definition claimable (tr : trace) (n d : Z) : Z := sum_dmul (intervals tr n d) + added tr n d.
(* the same with exact products, scaled by 10^18 (i.e. in units of 10^-36) *)
Definition claimable_exact36 (tr : trace) (n d : Z) : Z := sum_exact (intervals tr n d) + P18 * added tr n d.

(* ---- the plain API: growth that occurred while the shares were held ---- *)
Definition boundary (o : op) (n : Z) : bool :=
  match creates o n, delta_of o n with
  | None, None => claims o n
  | _, _ => true
  end.
(* growth since n's last boundary (creation, share change, claim) *)
Fixpoint since (tr : trace) (n d : Z) : Z :=
  match tr with
  | [] => 0
  | (o, Ok _) :: tr' => if boundary o n then 0 else grows o d + since tr' n d
  | _ :: tr' => since tr' n d
  end.
Fixpoint pl_ivals (tr : trace) (n d : Z) : list (Z * Z) :=
  match tr with
  | [] => []
  | (o, Ok _) :: tr' =>
      match creates o n with
      | Some _ => []
      | None =>
        if claims o n then []
        else match delta_of o n with
             | Some _ => (since tr' n d, shares tr' n) :: pl_ivals tr' n d
             | None => pl_ivals tr' n d
             end
      end
  | _ :: tr' => pl_ivals tr' n d
  end.
Definition pl_intervals (tr : trace) (n d : Z) : list (Z * Z) := (since tr n d, shares tr n) :: pl_ivals tr n d.
Definition pl_claimable (tr : trace) (n d : Z) : Z := sum_dmul (pl_intervals tr n d) + added tr n d.
Definition pl_claimable_exact36 (tr : trace) (n d : Z) : Z := sum_exact (pl_intervals tr n d) + P18 * added tr n d.

Definition is_plain (o : op) : bool :=
  match o with
  | ONewIA _ _ _ | OAddIA _ _ _ | ORemoveIA _ _ _ | OUpdateIA _ _ _ | OSetIA _ _ => false
  | _ => true
  end.
Definition plain (tr : trace) : Prop := Forall (fun e => is_plain (fst e) = true) tr.

(* ---- the quantifier of the property ---- *)
Fixpoint sorted (c : coins) : Prop :=
  match c with
  | [] => True
  | x :: r => match r with [] => True | y :: _ => fst x < fst y end /\ sorted r
  end.
Definition nonneg (c : coins) : Prop := Forall (fun x => 0 <= snd x) c.

(* the name a call is about *)
Definition name_of (o : op) : option Z :=
  match o with
  | OGrow _ => None
  | ONew n _ | ONewIA n _ _ | OAdd n _ | OAddIA n _ _ | ORemove n _ | ORemoveIA n _ _
  | OUpdate n _ | OUpdateIA n _ _ | OSetIA n _ | OClaim n | ODelete n | OAddUnclaimed n _ => Some n
  end.

(* inputs the property quantifies over: well-formed coin lists, non-negative growth, a name is created
   only while it does not exist, with a non-negative share amount *)
Definition dom (tr : trace) (o : op) : Prop :=
  match o with
  | OGrow c => sorted c /\ nonneg c
  | ONew n s => live tr n = false /\ 0 <= s
  | ONewIA n s ia => live tr n = false /\ 0 <= s /\ sorted ia
  | OAddIA _ _ ia | ORemoveIA _ _ ia | OUpdateIA _ _ ia | OSetIA _ ia => sorted ia
  | OAddUnclaimed _ c => sorted c
  | _ => True
  end.

(* calls the property says must fail *)
Definition invalid (tr : trace) (o : op) : Prop :=
  match o with
  | OGrow _ | ONew _ _ | ONewIA _ _ _ => False
  | OAdd n s | OAddIA n s _ => live tr n = false \/ s <= 0
  | ORemove n s | ORemoveIA n s _ => live tr n = false \/ s <= 0 \/ shares tr n < s
  | OUpdate n s | OUpdateIA n s _ => live tr n = false \/ s = 0 \/ (s < 0 /\ shares tr n < - s)
  | OSetIA n _ | OClaim n | ODelete n => live tr n = false
  | OAddUnclaimed n c => live tr n = false \/ ~ nonneg c
  end.

(* ---- histories ---- *)
(* one call; a panicking call aborts the transaction, so it leaves the store as it was *)
Definition apply (st : astore) (rv : recv) (o : op) : res ret * astore :=
  let r := step st rv o in
  match o_res r with Panic => (Panic, st) | x => (x, o_st r) end.

(* the AccumulatorObject the call is made on holds the accumulator's current value (where the call uses it)
   and, for AddToAccumulator / DeletePosition, its current total shares; anything else may be stale *)
Definition needs_value (o : op) : bool :=
  match o with OSetIA _ _ | OAddUnclaimed _ _ => false | _ => true end.
Definition needs_total (o : op) : bool :=
  match o with OGrow _ | ODelete _ => true | _ => false end.
Definition recv_ok (st : astore) (rv : recv) (o : op) : Prop :=
  exists c, a_content st = Some c /\
            (needs_value o = true -> v_value rv = c_value c) /\
            (needs_total o = true -> v_total rv = c_total c).

Definition init_store : astore := mkA (Some (mkC [] 0)) [].      (* after MakeAccumulator *)

(* [hist tr st]: st is the store after the calls of tr (newest first), made with arbitrary admissible
   receivers on arguments in the property's domain *)
Inductive hist : trace -> astore -> Prop :=
| hist0 : hist [] init_store
| histS : forall tr st rv o, hist tr st -> dom tr o -> recv_ok st rv o ->
    hist ((o, fst (apply st rv o)) :: tr) (snd (apply st rv o)).

Definition sum_shares (m : pmap) : Z := fold_right (fun kr acc => r_shares (snd kr) + acc) 0 m.
