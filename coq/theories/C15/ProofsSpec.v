(* C15: facts about the ghost specification alone - distance to the exact rational value, and the plain-API
   reading ("growth since the last boundary") of the reference points. *)
From Coq Require Import ZArith List Bool Lia.
Import ListNotations.
From Osmo Require Import Base.DecModel C15.Model C15.Spec.
Open Scope Z_scope.

Definition HALF : Z := Z.quot P18 2.       (* half an ulp of 10^-18, in units of 10^-36 *)
Lemma P18_half : P18 = 2 * HALF.
Proof. reflexivity. Qed.
Lemma HALF_pos : 0 < HALF.
Proof. reflexivity. Qed.

Lemma chop_round_nonneg_err : forall a, 0 <= a -> Z.abs (P18 * chop_round_nonneg P18 a - a) <= HALF.
Proof.
  intros a Ha. unfold chop_round_nonneg. fold HALF.
  pose proof P18_half as Hp. pose proof HALF_pos as Hh.
  assert (Hp0 : P18 <> 0) by lia.
  pose proof (Z.quot_rem' a P18) as Hqr.
  pose proof (Z.rem_bound_pos a P18 Ha ltac:(lia)) as Hr.
  set (q := Z.quot a P18) in *. set (r := Z.rem a P18) in *.
  destruct (r =? 0) eqn:E0; [apply Z.eqb_eq in E0; lia|].
  destruct (r ?= HALF) eqn:Ec.
  - apply Z.compare_eq in Ec. destruct (Z.even q); lia.
  - assert (r < HALF) by exact Ec. lia.
  - assert (HALF < r) by (apply Z.gt_lt; exact Ec). lia.
Qed.

Lemma d_mul_err : forall a b, Z.abs (P18 * d_mul a b - a * b) <= HALF.
Proof.
  intros a b. unfold d_mul, chop_round.
  destruct (a * b <? 0) eqn:E.
  - apply Z.ltb_lt in E. pose proof (chop_round_nonneg_err (- (a * b)) ltac:(lia)). lia.
  - apply Z.ltb_ge in E. apply chop_round_nonneg_err; exact E.
Qed.

Lemma sum_dmul_err : forall l, Z.abs (P18 * sum_dmul l - sum_exact l) <= HALF * Z.of_nat (length l).
Proof.
  induction l as [|[g s] l IH]; cbn [sum_dmul sum_exact fold_right length fst snd].
  - change (Z.of_nat 0) with 0. lia.
  - fold (sum_dmul l). fold (sum_exact l). pose proof (d_mul_err g s). rewrite Nat2Z.inj_succ. lia.
Qed.

(* |claimable - exact| <= 1/2 ulp per interval *)
Lemma spec_vs_rational : forall tr n d,
  Z.abs (P18 * claimable tr n d - claimable_exact36 tr n d) <= HALF * Z.of_nat (length (intervals tr n d)).
Proof.
  intros tr n d. unfold claimable, claimable_exact36.
  pose proof (sum_dmul_err (intervals tr n d)). lia.
Qed.
Lemma pl_spec_vs_rational : forall tr n d,
  Z.abs (P18 * pl_claimable tr n d - pl_claimable_exact36 tr n d) <= HALF * Z.of_nat (length (pl_intervals tr n d)).
Proof.
  intros tr n d. unfold pl_claimable, pl_claimable_exact36.
  pose proof (sum_dmul_err (pl_intervals tr n d)). lia.
Qed.

(* an exact product needs no rounding: integer share counts / integer growth lose nothing *)
Lemma d_mul_exact : forall a b, (a * b) mod P18 = 0 -> P18 * d_mul a b = a * b.
Proof.
  intros a b Hm.
  assert (Hp : 0 < P18) by reflexivity.
  apply Z.mod_divide in Hm; [|lia]. destruct Hm as [k Hk].
  unfold d_mul, chop_round. rewrite Hk.
  destruct (k * P18 <? 0) eqn:E.
  - apply Z.ltb_lt in E. unfold chop_round_nonneg.
    replace (- (k * P18)) with ((- k) * P18) by lia.
    rewrite Z.quot_mul by lia. rewrite Z.rem_mul by lia. cbn [Z.eqb]. lia.
  - unfold chop_round_nonneg. rewrite Z.quot_mul by lia. rewrite Z.rem_mul by lia. cbn [Z.eqb]. lia.
Qed.

(* ---- plain API: the reference point is the accumulator value at the last boundary ---- *)
Lemma plain_tail : forall e tr, plain (e :: tr) -> plain tr.
Proof. intros e tr H. inversion H; assumption. Qed.

Lemma pending_since : forall tr, plain tr -> forall n d, pending tr n d = since tr n d.
Proof.
  induction tr as [|[o x] tr IH]; intros Hp n d; [reflexivity|].
  pose proof (IH (plain_tail _ _ Hp) n d) as IHn. unfold pending in *.
  inversion Hp as [|? ? Ho _]; subst. cbn [fst] in Ho.
  destruct x as [r| |]; cbn [growth snapg since]; try exact IHn.
  destruct o; cbn [is_plain] in Ho; try discriminate;
    unfold boundary; cbn [resnaps creates delta_of claims grows];
    repeat match goal with |- context [?a =? ?b] => destruct (a =? b) end; lia.
Qed.

Lemma pl_ivals_eq : forall tr, plain tr -> forall n d, pl_ivals tr n d = ivals tr n d.
Proof.
  induction tr as [|[o x] tr IH]; intros Hp n d; [reflexivity|].
  pose proof (plain_tail _ _ Hp) as Hp'.
  destruct x as [r| |]; cbn [pl_ivals ivals]; try (apply IH; exact Hp').
  rewrite (IH Hp' n d), (pending_since tr Hp' n d). reflexivity.
Qed.

Lemma pl_claimable_eq : forall tr, plain tr -> forall n d, pl_claimable tr n d = claimable tr n d.
Proof.
  intros tr Hp n d. unfold pl_claimable, claimable, pl_intervals, intervals.
  rewrite (pl_ivals_eq tr Hp n d), (pending_since tr Hp n d). reflexivity.
Qed.
Lemma pl_exact_eq : forall tr, plain tr -> forall n d, pl_claimable_exact36 tr n d = claimable_exact36 tr n d.
Proof.
  intros tr Hp n d. unfold pl_claimable_exact36, claimable_exact36, pl_intervals, intervals.
  rewrite (pl_ivals_eq tr Hp n d), (pending_since tr Hp n d). reflexivity.
Qed.

(* plain histories: every event of a [hist] built from plain calls is plain *)
Lemma plain_cons : forall o x tr, is_plain o = true -> plain tr -> plain ((o, x) :: tr).
Proof. intros. constructor; assumption. Qed.
