(* C15: what each exported call does to the store, as case lemmas (panic / error without effect / success
   with an explicit new store).  The rewards computation stays abstract here ([get_total_rewards]). *)
From Coq Require Import ZArith List Bool Lia.
Import ListNotations.
From Osmo Require Import Base.DecModel C15.Model C15.Spec C15.ProofsMap.
Open Scope Z_scope.

Ltac bm :=
  match goal with
  | |- context [match ?x with _ => _ end] => destruct x eqn:?
  end.

Lemma refetch_cases : forall st rv f c, a_content st = Some c ->
  let r := refetch_and_set st rv f in
  (o_res r = Panic /\ f (c_total c) = None) \/
  (exists t, f (c_total c) = Some t /\ o_res r = Ok tt /\
             o_st r = mkA (Some (mkC (v_value rv) t)) (a_pos st) /\ o_rv r = mkV (v_value rv) t).
Proof.
  intros st rv f c Hc. unfold refetch_and_set, get_accumulator. rewrite Hc. cbn.
  destruct (f (c_total c)) eqn:E; cbn; [right; exists z; auto|left; auto].
Qed.

(* the three outcomes of a share-changing call on name n with signed change dl and new snapshot sn *)
Definition change_outcome (st : astore) (rv : recv) (c : content) (n dl : Z) (sn : coins) (r : out unit) : Prop :=
  o_res r = Panic \/
  (exists e, o_res r = Err e /\ o_st r = st /\ o_rv r = rv) \/
  (o_res r = Ok tt /\ exists pos unc,
     p_get n (a_pos st) = Some pos /\ get_total_rewards rv pos = Some unc /\
     o_st r = mkA (Some (mkC (v_value rv) (c_total c + dl))) (p_set n (mkR (r_shares pos + dl) sn unc) (a_pos st)) /\
     o_rv r = mkV (v_value rv) (c_total c + dl)).

Lemma add_ia_cases : forall st rv n s ia c, a_content st = Some c ->
  let r := add_to_position_ia st rv n s ia in
  change_outcome st rv c n s ia r /\
  (forall e, o_res r = Err e -> s <= 0 \/ p_get n (a_pos st) = None) /\
  (o_res r = Ok tt -> 0 < s) /\
  (s <= 0 \/ p_get n (a_pos st) = None -> exists e, o_res r = Err e).
Proof.
  intros st rv n s ia c Hc. unfold add_to_position_ia, get_position.
  destruct (0 <? s) eqn:Es; cbn [negb].
  2:{ apply Z.ltb_ge in Es. cbn. split; [right; left; eexists; repeat split; reflexivity|]. split; [intros; left; lia|].
      split; [discriminate|eauto]. }
  apply Z.ltb_lt in Es.
  destruct (p_get n (a_pos st)) as [pos|] eqn:Ep.
  2:{ cbn. split; [right; left; eexists; repeat split; reflexivity|]. split; [auto|]. split; [discriminate|eauto]. }
  destruct (get_total_rewards rv pos) as [unc|] eqn:Er.
  2:{ cbn. split; [left; reflexivity|]. split; [discriminate|]. split; [discriminate|]. intros [H|H]; [lia|discriminate]. }
  destruct (dec_add (r_shares pos) s) as [ns|] eqn:Ea.
  2:{ cbn. split; [left; reflexivity|]. split; [discriminate|]. split; [discriminate|]. intros [H|H]; [lia|discriminate]. }
  apply dec_add_some in Ea. subst ns.
  pose proof (refetch_cases (init_or_update st ia n (r_shares pos + s) unc) rv (fun t => dec_add t s) c Hc) as H.
  cbv zeta in H. destruct H as [[H1 _]|[t [H1 [H2 [H3 H4]]]]].
  - split; [left; exact H1|]. rewrite H1. split; [discriminate|]. split; [discriminate|]. intros [H|H]; [lia|discriminate].
  - apply dec_add_some in H1. subst t. split.
    + right; right. split; [exact H2|]. exists pos, unc. repeat split; auto.
    + rewrite H2. split; [discriminate|]. split; [auto|]. intros [H|H]; [lia|discriminate].
Qed.

Lemma remove_ia_cases : forall st rv n s ia c, a_content st = Some c ->
  let r := remove_from_position_ia st rv n s ia in
  change_outcome st rv c n (- s) ia r /\
  (forall e, o_res r = Err e ->
     s <= 0 \/ match p_get n (a_pos st) with None => True | Some pos => r_shares pos < s end) /\
  (o_res r = Ok tt -> 0 < s /\ exists pos, p_get n (a_pos st) = Some pos /\ s <= r_shares pos) /\
  (s <= 0 \/ match p_get n (a_pos st) with None => True | Some pos => r_shares pos < s end -> exists e, o_res r = Err e).
Proof.
  intros st rv n s ia c Hc. unfold remove_from_position_ia, get_position.
  destruct (0 <? s) eqn:Es; cbn [negb].
  2:{ apply Z.ltb_ge in Es. cbn. split; [right; left; eexists; repeat split; reflexivity|]. split; [intros; left; lia|].
      split; [discriminate|eauto]. }
  apply Z.ltb_lt in Es.
  destruct (p_get n (a_pos st)) as [pos|] eqn:Ep.
  2:{ cbn. split; [right; left; eexists; repeat split; reflexivity|]. split; [auto|]. split; [discriminate|eauto]. }
  destruct (r_shares pos <? s) eqn:Et.
  { apply Z.ltb_lt in Et. cbn. split; [right; left; eexists; repeat split; reflexivity|]. split; [auto|]. split; [discriminate|eauto]. }
  apply Z.ltb_ge in Et.
  destruct (get_total_rewards rv pos) as [unc|] eqn:Er.
  2:{ cbn. split; [left; reflexivity|]. split; [discriminate|]. split; [discriminate|]. intros [H|H]; [lia|lia]. }
  destruct (dec_sub (r_shares pos) s) as [ns|] eqn:Ea.
  2:{ cbn. split; [left; reflexivity|]. split; [discriminate|]. split; [discriminate|]. intros [H|H]; [lia|lia]. }
  apply dec_sub_some in Ea. subst ns.
  pose proof (refetch_cases (init_or_update st ia n (r_shares pos - s) unc) rv (fun t => dec_sub t s) c Hc) as H.
  cbv zeta in H. destruct H as [[H1 _]|[t [H1 [H2 [H3 H4]]]]].
  - split; [left; exact H1|]. rewrite H1. split; [discriminate|]. split; [discriminate|]. intros [H|H]; lia.
  - apply dec_sub_some in H1. subst t. split.
    + right; right. split; [exact H2|]. exists pos, unc.
      replace (r_shares pos + - s) with (r_shares pos - s) by lia.
      replace (c_total c + - s) with (c_total c - s) by lia. repeat split; auto.
    + rewrite H2. split; [discriminate|]. split; [intros _; split; [lia|eauto]|]. intros [H|H]; lia.
Qed.

Lemma new_ia_cases : forall st rv n s ia c, a_content st = Some c ->
  let r := new_position_ia st rv n s ia in
  o_res r = Panic \/
  (o_res r = Ok tt /\
   o_st r = mkA (Some (mkC (v_value rv) (c_total c + s))) (p_set n (mkR s ia []) (a_pos st)) /\
   o_rv r = mkV (v_value rv) (c_total c + s)).
Proof.
  intros st rv n s ia c Hc. unfold new_position_ia.
  pose proof (refetch_cases (init_or_update st ia n s []) rv (fun t => dec_add t s) c Hc) as H.
  cbv zeta in H. destruct H as [[H1 _]|[t [H1 [H2 [H3 H4]]]]]; [left; exact H1|].
  apply dec_add_some in H1. subst t. right. auto.
Qed.

Lemma set_ia_cases : forall st rv n ia,
  let r := set_position_ia st rv n ia in
  (p_get n (a_pos st) = None /\ o_res r = Err ENoPosition /\ o_st r = st /\ o_rv r = rv) \/
  (exists pos, p_get n (a_pos st) = Some pos /\ o_res r = Ok tt /\
     o_st r = mkA (a_content st) (p_set n (mkR (r_shares pos) ia (r_unclaimed pos)) (a_pos st)) /\ o_rv r = rv).
Proof.
  intros st rv n ia. unfold set_position_ia, get_position.
  destruct (p_get n (a_pos st)) as [pos|]; cbn; [right; exists pos; auto|left; auto].
Qed.

Lemma add_unclaimed_cases : forall st rv n c,
  let r := add_to_unclaimed st rv n c in
  o_res r = Panic \/
  (exists e, o_res r = Err e /\ o_st r = st /\ o_rv r = rv /\ (p_get n (a_pos st) = None \/ any_negative c = true)) \/
  (exists pos u, p_get n (a_pos st) = Some pos /\ any_negative c = false /\ safe_add (r_unclaimed pos) c = Some u /\
     o_res r = Ok tt /\
     o_st r = mkA (a_content st) (p_set n (mkR (r_shares pos) (r_snap pos) u) (a_pos st)) /\ o_rv r = rv).
Proof.
  intros st rv n c. unfold add_to_unclaimed, get_position.
  destruct (p_get n (a_pos st)) as [pos|]; cbn; [|right; left; eauto 10].
  destruct (any_negative c) eqn:En; cbn; [right; left; eauto 10|].
  destruct (safe_add (r_unclaimed pos) c) as [u|] eqn:Ea; cbn; [|left; reflexivity].
  right; right. exists pos, u. auto 10.
Qed.

Lemma add_unclaimed_err_iff : forall st rv n c,
  (p_get n (a_pos st) = None \/ any_negative c = true) -> exists e, o_res (add_to_unclaimed st rv n c) = Err e.
Proof.
  intros st rv n c. unfold add_to_unclaimed, get_position.
  destruct (p_get n (a_pos st)) as [pos|]; cbn; [|eauto].
  destruct (any_negative c); cbn; [eauto|]. intros [H|H]; discriminate.
Qed.

Lemma claim_cases : forall st rv n,
  let r := claim_rewards st rv n in
  o_rv r = rv /\
  (o_res r = Panic \/
   (p_get n (a_pos st) = None /\ o_res r = Err ENoPosition /\ o_st r = st) \/
   (exists pos total tc dust,
      p_get n (a_pos st) = Some pos /\ get_total_rewards rv pos = Some total /\ truncate_decimal total = Some (tc, dust) /\
      o_res r = Ok (tc, dust) /\
      o_st r = mkA (a_content st)
                   (if r_shares pos =? 0 then p_del n (a_pos st)
                    else p_set n (mkR (r_shares pos) (v_value rv) []) (a_pos st)))).
Proof.
  intros st rv n. unfold claim_rewards, get_position.
  destruct (p_get n (a_pos st)) as [pos|] eqn:Ep; cbn; [|auto 10].
  destruct (get_total_rewards rv pos) as [total|] eqn:Er; cbn; [|auto].
  destruct (truncate_decimal total) as [[tc dust]|] eqn:Et; cbn; [|auto].
  split; [reflexivity|]. right; right. exists pos, total, tc, dust.
  destruct (r_shares pos =? 0); auto 10.
Qed.

Lemma delete_cases : forall st rv n c, a_content st = Some c -> psorted (a_pos st) ->
  let r := delete_position st rv n in
  o_res r = Panic \/
  (p_get n (a_pos st) = None /\ o_res r = Err ENoPosition /\ o_st r = st /\ o_rv r = rv) \/
  (exists pos total tc dust dc ret,
      p_get n (a_pos st) = Some pos /\ get_total_rewards rv pos = Some total /\ truncate_decimal total = Some (tc, dust) /\
      dec_coins_from_coins tc = Some dc /\ safe_add dc dust = Some ret /\
      o_res r = Ok ret /\
      o_st r = mkA (Some (mkC (v_value rv) (v_total rv - r_shares pos))) (p_del n (a_pos st)) /\
      o_rv r = mkV (v_value rv) (v_total rv - r_shares pos)).
Proof.
  intros st rv n c Hc Hs.
  pose proof (claim_cases st rv n) as H. cbv zeta in H. destruct H as [Hrv H].
  unfold delete_position, get_position.
  destruct (p_get n (a_pos st)) as [pos|] eqn:Ep.
  2:{ cbn. auto 10. }
  cbv iota beta.
  destruct H as [H|[[H _]|[pos' [total [tc [dust [H1 [H2 [H3 [H4 H5]]]]]]]]]]; [rewrite H; auto|discriminate|].
  rewrite H4. injection H1 as <-.
  destruct (dec_sub (v_total rv) (r_shares pos)) as [t|] eqn:Ed; [|auto].
  apply dec_sub_some in Ed. subst t.
  destruct (dec_coins_from_coins tc) as [dc|] eqn:Edc; [|auto].
  destruct (safe_add dc dust) as [ret|] eqn:Esa; [|auto].
  right; right. exists pos, total, tc, dust, dc, ret. cbn [o_res o_st o_rv].
  repeat split; auto.
  rewrite H5. cbn [a_content a_pos]. unfold set_accumulator. cbn [a_pos v_value].
  f_equal. destruct (r_shares pos =? 0).
  - apply p_del_absent. apply p_get_p_del_same; exact Hs.
  - apply p_del_p_set; exact Hs.
Qed.

Lemma grow_cases : forall st rv amt,
  let r := add_to_accumulator st rv amt in
  o_res r = Panic \/
  (exists v, safe_add (v_value rv) amt = Some v /\ o_res r = Ok tt /\
     o_st r = mkA (Some (mkC v (v_total rv))) (a_pos st) /\ o_rv r = mkV v (v_total rv)).
Proof.
  intros st rv amt. unfold add_to_accumulator.
  destruct (safe_add (v_value rv) amt) as [v|]; cbn; [right; exists v; auto|left; auto].
Qed.
