(* C15: the DecCoins operations of the model, characterised per denomination ([amt d]) on coin lists that are
   sorted by denomination (the SDK's own contract for DecCoins.Add). *)
From Coq Require Import ZArith List Bool Lia.
Import ListNotations.
From Osmo Require Import Base.DecModel C15.Model C15.Spec C15.ProofsMap.
Open Scope Z_scope.

Definition nz (c : coins) : Prop := Forall (fun x => snd x <> 0) c.
Definition lb (k : Z) (c : coins) : Prop := Forall (fun x => k < fst x) c.
Definition ub (k : Z) (c : coins) : Prop := Forall (fun x => fst x < k) c.
(* sorted, no zero entry: the form in which the SDK keeps DecCoins *)
Definition canon (c : coins) : Prop := sorted c /\ nz c.

Lemma sorted_tail : forall x c, sorted (x :: c) -> sorted c.
Proof. intros x c [_ H]; exact H. Qed.

Lemma sorted_lb : forall x c, sorted (x :: c) -> lb (fst x) c.
Proof.
  intros x c; revert x; induction c as [|y c IH]; intros x H; [constructor|].
  destruct H as [H1 H2]. constructor; [exact H1|].
  specialize (IH y H2). unfold lb in *. rewrite Forall_forall in *. intros z Hz. specialize (IH z Hz). lia.
Qed.

Lemma sorted_cons : forall x c, lb (fst x) c -> sorted c -> sorted (x :: c).
Proof.
  intros x c Hl Hs. destruct c as [|y c]; cbn; [auto|]. split; [|exact Hs]. inversion Hl; subst; assumption.
Qed.

Lemma lb_weaken : forall k k' c, k' <= k -> lb k c -> lb k' c.
Proof. unfold lb; intros k k' c Hle H. rewrite Forall_forall in *. intros x Hx; specialize (H x Hx); lia. Qed.

Lemma amt_lb : forall d k c, lb k c -> d <= k -> amt d c = 0.
Proof.
  intros d k c; induction c as [|x c IH]; intros Hl Hd; [reflexivity|].
  inversion Hl; subst. cbn. destruct (fst x =? d) eqn:E; [apply Z.eqb_eq in E; lia|]. apply IH; assumption.
Qed.

Lemma amt_ub : forall d k c, ub k c -> k <= d -> amt d c = 0.
Proof.
  intros d k c; induction c as [|x c IH]; intros Hl Hd; [reflexivity|].
  inversion Hl; subst. cbn. destruct (fst x =? d) eqn:E; [apply Z.eqb_eq in E; lia|]. apply IH; assumption.
Qed.

Lemma amt_cons : forall d x c, amt d (x :: c) = if fst x =? d then snd x else amt d c.
Proof. reflexivity. Qed.

(* ---- removeZeroDecCoins ---- *)
Lemma remove_zero_spec : forall c, sorted c ->
  canon (remove_zero c) /\ (forall d, amt d (remove_zero c) = amt d c) /\
  (forall k, lb k c -> lb k (remove_zero c)) /\ (forall k, ub k c -> ub k (remove_zero c)).
Proof.
  induction c as [|x c IH]; intros Hs.
  - repeat split; try constructor; auto.
  - destruct (IH (sorted_tail _ _ Hs)) as [[S1 S2] [Ha [S3 S4]]].
    pose proof (sorted_lb _ _ Hs) as Hl.
    cbn [remove_zero filter]. unfold is_zero. destruct (snd x =? 0) eqn:E; cbn [negb];
      change (filter (fun x0 => negb (snd x0 =? 0)) c) with (remove_zero c).
    + apply Z.eqb_eq in E. split; [split; assumption|]. split; [|split].
      * intros d. rewrite Ha, amt_cons.
        destruct (fst x =? d) eqn:E2; [|reflexivity]. apply Z.eqb_eq in E2. rewrite E.
        apply amt_lb with (fst x); [exact Hl|lia].
      * intros k Hk. apply S3. inversion Hk; assumption.
      * intros k Hk. apply S4. inversion Hk; assumption.
    + apply Z.eqb_neq in E. split; [split|split; [|split]].
      * apply sorted_cons; [|exact S1]. apply S3. exact Hl.
      * constructor; assumption.
      * intros d. rewrite !amt_cons, Ha. reflexivity.
      * intros k Hk. inversion Hk; subst. constructor; [assumption|]. apply S3. assumption.
      * intros k Hk. inversion Hk; subst. constructor; [assumption|]. apply S4. assumption.
Qed.

(* ---- push_nz ---- *)
Lemma push_nz_spec : forall x r, lb (fst x) r -> sorted r -> nz r ->
  canon (push_nz x r) /\ (forall d, amt d (push_nz x r) = amt d (x :: r)) /\
  (forall k, k < fst x -> lb k r -> lb k (push_nz x r)) /\ (forall k, fst x < k -> ub k r -> ub k (push_nz x r)).
Proof.
  intros x r Hl Hs Hn. unfold push_nz, is_zero. destruct (snd x =? 0) eqn:E.
  - apply Z.eqb_eq in E. split; [split; assumption|]. split; [|split; auto].
    intros d. rewrite amt_cons. destruct (fst x =? d) eqn:E2; [|reflexivity].
    apply Z.eqb_eq in E2. rewrite E. apply amt_lb with (fst x); [exact Hl|lia].
  - apply Z.eqb_neq in E. split; [split|split; [|split]].
    + apply sorted_cons; assumption.
    + constructor; assumption.
    + reflexivity.
    + intros k Hk Hr. constructor; assumption.
    + intros k Hk Hr. constructor; assumption.
Qed.

(* ---- DecCoins.safeAdd ---- *)
Lemma safe_add_eq : forall a b,
  safe_add a b =
  match a with
  | [] => Some (remove_zero b)
  | ca :: a' =>
    match b with
    | [] => Some (remove_zero a)
    | cb :: b' =>
      match fst ca ?= fst cb with
      | Lt => option_map (push_nz ca) (safe_add a' b)
      | Eq => match dec_add (snd ca) (snd cb) with
              | None => None
              | Some s => option_map (push_nz (fst ca, s)) (safe_add a' b')
              end
      | Gt => option_map (push_nz cb) (safe_add a b')
      end
    end
  end.
Proof. destruct a; destruct b; reflexivity. Qed.

Lemma safe_add_spec : forall a b r, sorted a -> sorted b -> safe_add a b = Some r ->
  canon r /\ (forall d, amt d r = amt d a + amt d b) /\
  (forall k, lb k a -> lb k b -> lb k r) /\ (forall k, ub k a -> ub k b -> ub k r).
Proof.
  induction a as [|ca a' IHa].
  - intros b r Ha Hb H. rewrite safe_add_eq in H. injection H as <-.
    destruct (remove_zero_spec b Hb) as [C [Hamt [S3 S4]]]. split; [exact C|]. split; [|split].
    + intros d. rewrite Hamt. reflexivity.
    + intros k _ Hk. apply S3; exact Hk.
    + intros k _ Hk. apply S4; exact Hk.
  - induction b as [|cb b' IHb]; intros r Ha Hb H; rewrite safe_add_eq in H.
    + injection H as <-.
      destruct (remove_zero_spec (ca :: a') Ha) as [C [Hamt [S3 S4]]]. split; [exact C|]. split; [|split].
      * intros d. rewrite Hamt. cbn [amt]. lia.
      * intros k Hk _. apply S3; exact Hk.
      * intros k Hk _. apply S4; exact Hk.
    + pose proof (sorted_lb _ _ Ha) as Hla. pose proof (sorted_lb _ _ Hb) as Hlb.
      destruct (fst ca ?= fst cb) eqn:Ecmp.
      * (* equal denominations *)
        apply Z.compare_eq in Ecmp.
        destruct (dec_add (snd ca) (snd cb)) as [s|] eqn:Es; [|discriminate].
        apply dec_add_some in Es. subst s.
        destruct (safe_add a' b') as [r0|] eqn:E0; [|discriminate]. injection H as <-.
        destruct (IHa b' r0 (sorted_tail _ _ Ha) (sorted_tail _ _ Hb) E0) as [[S1 S2] [Hamt [S3 S4]]].
        assert (Hl0 : lb (fst ca) r0) by (apply S3; [exact Hla|rewrite Ecmp; exact Hlb]).
        destruct (push_nz_spec (fst ca, snd ca + snd cb) r0 Hl0 S1 S2) as [P1 [P3 [P4 P5]]].
        split; [exact P1|]. split; [|split].
        -- intros d. rewrite P3. rewrite !amt_cons. cbn [fst snd]. rewrite <- Ecmp.
           destruct (fst ca =? d); [reflexivity|apply Hamt].
        -- intros k K1 K3. inversion K1; subst. inversion K3; subst. apply P4; [cbn; assumption|].
           apply S3; assumption.
        -- intros k K1 K3. inversion K1; subst. inversion K3; subst. apply P5; [cbn; assumption|].
           apply S4; assumption.
      * (* ca first *)
        assert (Hlt : fst ca < fst cb) by exact Ecmp. clear Ecmp. rename Hlt into Ecmp.
        destruct (safe_add a' (cb :: b')) as [r0|] eqn:E0; [|discriminate]. injection H as <-.
        destruct (IHa (cb :: b') r0 (sorted_tail _ _ Ha) Hb E0) as [[S1 S2] [Hamt [S3 S4]]].
        assert (Hlcb : lb (fst ca) (cb :: b')).
        { constructor; [exact Ecmp|]. apply lb_weaken with (fst cb); [lia|exact Hlb]. }
        assert (Hl0 : lb (fst ca) r0) by (apply S3; assumption).
        destruct (push_nz_spec ca r0 Hl0 S1 S2) as [P1 [P3 [P4 P5]]].
        split; [exact P1|]. split; [|split].
        -- intros d. rewrite P3. rewrite (amt_cons d ca a').
           change (amt d (ca :: r0)) with (if fst ca =? d then snd ca else amt d r0).
           destruct (fst ca =? d) eqn:E2; [|apply Hamt].
           apply Z.eqb_eq in E2. rewrite (amt_lb d (fst ca) (cb :: b')); [lia|exact Hlcb|lia].
        -- intros k K1 K3. inversion K1; subst. apply P4; [assumption|]. apply S3; assumption.
        -- intros k K1 K3. inversion K1; subst. apply P5; [assumption|]. apply S4; assumption.
      * (* cb first *)
        assert (Hlt : fst cb < fst ca) by (apply Z.gt_lt; exact Ecmp). clear Ecmp. rename Hlt into Ecmp.
        destruct (safe_add (ca :: a') b') as [r0|] eqn:E0; [|discriminate]. injection H as <-.
        destruct (IHb r0 Ha (sorted_tail _ _ Hb) eq_refl) as [[S1 S2] [Hamt [S3 S4]]].
        assert (Hlca : lb (fst cb) (ca :: a')).
        { constructor; [exact Ecmp|]. apply lb_weaken with (fst ca); [lia|exact Hla]. }
        assert (Hl0 : lb (fst cb) r0) by (apply S3; assumption).
        destruct (push_nz_spec cb r0 Hl0 S1 S2) as [P1 [P3 [P4 P5]]].
        split; [exact P1|]. split; [|split].
        -- intros d. rewrite P3. rewrite (amt_cons d cb b').
           change (amt d (cb :: r0)) with (if fst cb =? d then snd cb else amt d r0).
           destruct (fst cb =? d) eqn:E2; [|apply Hamt].
           apply Z.eqb_eq in E2. rewrite (amt_lb d (fst cb) (ca :: a')); [lia|exact Hlca|lia].
        -- intros k K1 K3. inversion K3; subst. apply P4; [assumption|]. apply S3; assumption.
        -- intros k K1 K3. inversion K3; subst. apply P5; [assumption|]. apply S4; assumption.
Qed.

(* ---- negative, Sub ---- *)
Lemma negate_sorted : forall c, sorted c -> sorted (negate c).
Proof.
  induction c as [|x c IH]; intros H; [exact I|].
  destruct c as [|y c]; [cbn; auto|]. destruct H as [H1 H2]. split; [exact H1|apply IH; exact H2].
Qed.
Lemma amt_negate : forall d c, amt d (negate c) = - amt d c.
Proof. induction c as [|x c IH]; cbn; [reflexivity|]. destruct (fst x =? d); [reflexivity|exact IH]. Qed.

Lemma any_negative_false : forall c, any_negative c = false -> forall d, 0 <= amt d c.
Proof.
  induction c as [|x c IH]; intros H d; cbn; [lia|]. cbn in H. apply orb_false_iff in H. destruct H as [H1 H2].
  apply Z.ltb_ge in H1. destruct (fst x =? d); [exact H1|apply IH; exact H2].
Qed.
Lemma any_negative_nonneg : forall c, any_negative c = false <-> nonneg c.
Proof.
  induction c as [|x c IH]; cbn; split; intros H; try constructor; auto.
  - apply orb_false_iff in H. destruct H as [H1 H2]. apply Z.ltb_ge in H1. exact H1.
  - apply orb_false_iff in H. apply IH. apply H.
  - inversion H; subst. apply orb_false_iff. split; [apply Z.ltb_ge; assumption|apply IH; assumption].
Qed.

Lemma coins_sub_spec : forall a b r, sorted a -> sorted b -> coins_sub a b = Some r ->
  canon r /\ (forall d, amt d r = amt d a - amt d b) /\ (forall d, 0 <= amt d r).
Proof.
  intros a b r Ha Hb H. unfold coins_sub in H.
  destruct (safe_add a (negate b)) as [r0|] eqn:E; [|discriminate].
  destruct (any_negative r0) eqn:En; [discriminate|]. injection H as <-.
  destruct (safe_add_spec a (negate b) r0 Ha (negate_sorted b Hb) E) as [[S1 S2] [Hamt _]].
  split; [split; assumption|]. split.
  - intros d. rewrite Hamt, amt_negate. lia.
  - apply any_negative_false; exact En.
Qed.

(* ---- MulDec ---- *)
Lemma d_mul_0_l : forall s, d_mul 0 s = 0.
Proof. intros s. reflexivity. Qed.

Definition sep (res c : coins) : Prop := Forall (fun y => lb (fst y) c) res.

Lemma mul_dec_from_spec : forall c s res r, sorted c -> canon res -> sep res c ->
  mul_dec_from res c s = Some r ->
  canon r /\ (forall d, amt d r = amt d res + d_mul (amt d c) s).
Proof.
  induction c as [|x c IH]; intros s res r Hc [Hr1 Hr2] Hsep H; cbn in H.
  - injection H as <-. split; [split; assumption|]. intros d. cbn [amt]. rewrite d_mul_0_l. lia.
  - destruct (dec_mul (snd x) s) as [p|] eqn:Ep; [|discriminate]. apply dec_mul_some in Ep. subst p.
    pose proof (sorted_lb _ _ Hc) as Hl.
    assert (Hub : ub (fst x) res).
    { unfold sep, ub in *. rewrite Forall_forall in *. intros y Hy. specialize (Hsep y Hy). inversion Hsep; assumption. }
    assert (Hsep' : sep res c).
    { unfold sep in *. rewrite Forall_forall in *. intros y Hy. specialize (Hsep y Hy). inversion Hsep; assumption. }
    destruct (d_mul (snd x) s =? 0) eqn:Ez.
    + apply Z.eqb_eq in Ez.
      destruct (IH s res r (sorted_tail _ _ Hc) (conj Hr1 Hr2) Hsep' H) as [C Hamt].
      split; [exact C|]. intros d. rewrite Hamt, amt_cons.
      destruct (fst x =? d) eqn:E2; [|reflexivity]. apply Z.eqb_eq in E2.
      rewrite (amt_lb d (fst x) c Hl) by lia. rewrite d_mul_0_l, Ez. reflexivity.
    + apply Z.eqb_neq in Ez.
      destruct (safe_add res [(fst x, d_mul (snd x) s)]) as [r1|] eqn:E1; [|discriminate].
      assert (Hs1 : sorted [(fst x, d_mul (snd x) s)]) by (cbn; auto).
      destruct (safe_add_spec res _ r1 Hr1 Hs1 E1) as [[S1 S2] [Hamt1 [S3 S4]]].
      assert (Hsep1 : sep r1 c).
      { assert (U : ub (fst x + 1) r1).
        { apply S4.
          - unfold ub in *. rewrite Forall_forall in *. intros y Hy. specialize (Hub y Hy). lia.
          - constructor; [cbn; lia|constructor]. }
        unfold sep, ub in *. rewrite Forall_forall in *. intros y Hy. specialize (U y Hy).
        apply lb_weaken with (fst x); [lia|exact Hl]. }
      destruct (IH s r1 r (sorted_tail _ _ Hc) (conj S1 S2) Hsep1 H) as [C Hamt].
      split; [exact C|]. intros d. rewrite Hamt, Hamt1, !amt_cons. cbn [amt fst snd].
      destruct (fst x =? d) eqn:E2; [|lia]. apply Z.eqb_eq in E2.
      rewrite (amt_lb d (fst x) c Hl) by lia. rewrite d_mul_0_l. lia.
Qed.

Lemma mul_dec_spec : forall c s r, sorted c -> mul_dec c s = Some r ->
  canon r /\ (forall d, amt d r = d_mul (amt d c) s).
Proof.
  intros c s r Hc H. unfold mul_dec in H.
  assert (C0 : canon []) by (split; [exact I|constructor]).
  assert (S0 : sep [] c) by constructor.
  destruct (mul_dec_from_spec c s [] r Hc C0 S0 H) as [C Hamt].
  split; [exact C|]. intros d. rewrite Hamt. reflexivity.
Qed.

(* ---- TruncateDecimal ---- *)
Lemma P18_pos : 0 < P18.
Proof. reflexivity. Qed.

Lemma trunc_coin_spec : forall x t g, trunc_coin x = Some (t, g) ->
  t = (fst x, Z.quot (snd x) P18) /\ g = (fst x, snd x - Z.quot (snd x) P18 * P18) /\ 0 <= snd x.
Proof.
  intros x t g H. unfold trunc_coin, d_truncate_int, d_from_int in H.
  destruct (negb (int_fits (Z.quot (snd x) P18))); [discriminate|].
  destruct (dec_sub (snd x) (Z.quot (snd x) P18 * P18)) as [ch|] eqn:E; [|discriminate].
  apply dec_sub_some in E. subst ch.
  destruct ((Z.quot (snd x) P18 <? 0) || (snd x - Z.quot (snd x) P18 * P18 <? 0)) eqn:En; [discriminate|].
  injection H as <- <-. apply orb_false_iff in En. destruct En as [E1 E2].
  apply Z.ltb_ge in E1. apply Z.ltb_ge in E2. pose proof P18_pos. repeat split; nia.
Qed.

Lemma push_nz_sorted : forall x r, lb (fst x) r -> sorted r -> sorted (push_nz x r).
Proof. intros x r Hl Hs. unfold push_nz. destruct (is_zero x); [exact Hs|apply sorted_cons; assumption]. Qed.

Lemma icoins_add1_spec : forall c x r, sorted c -> icoins_add1 c x = Some r ->
  sorted r /\ (forall d, amt d r = amt d c + amt d [x]) /\
  (forall k, lb k c -> k < fst x -> lb k r) /\ (forall k, ub k c -> fst x < k -> ub k r).
Proof.
  induction c as [|y c IH]; intros x r Hs H; cbn [icoins_add1] in H.
  - injection H as <-. split; [cbn; auto|]. split; [intros d; cbn [amt]; lia|]. split.
    + intros k _ Hk. constructor; [exact Hk|constructor].
    + intros k _ Hk. constructor; [exact Hk|constructor].
  - pose proof (sorted_lb _ _ Hs) as Hl.
    destruct (fst x ?= fst y) eqn:Ecmp.
    + apply Z.compare_eq in Ecmp.
      destruct (int_fits (snd x + snd y)); [|discriminate]. injection H as <-.
      split; [apply push_nz_sorted; [cbn; rewrite Ecmp; exact Hl|exact (sorted_tail _ _ Hs)]|].
      split; [|split].
      * intros d. unfold push_nz, is_zero. cbn [fst snd amt]. rewrite <- Ecmp.
        destruct (snd x + snd y =? 0) eqn:Ez.
        -- apply Z.eqb_eq in Ez. destruct (fst x =? d) eqn:E2; [|lia].
           apply Z.eqb_eq in E2. rewrite (amt_lb d (fst y) c Hl) by lia. lia.
        -- cbn [amt fst snd]. destruct (fst x =? d); lia.
      * intros k Hk Hx. inversion Hk; subst. unfold push_nz. destruct (is_zero _); [assumption|].
        constructor; [cbn; assumption|assumption].
      * intros k Hk Hx. inversion Hk; subst. unfold push_nz. destruct (is_zero _); [assumption|].
        constructor; [cbn; assumption|assumption].
    + assert (Hlt : fst x < fst y) by exact Ecmp. injection H as <-.
      split; [apply sorted_cons; [constructor; [exact Hlt|apply lb_weaken with (fst y); [lia|exact Hl]]|exact Hs]|].
      split; [|split].
      * intros d. cbn [amt]. destruct (fst x =? d) eqn:E2; [|lia].
        apply Z.eqb_eq in E2. destruct (fst y =? d) eqn:E3; [apply Z.eqb_eq in E3; lia|].
        rewrite (amt_lb d (fst y) c Hl) by lia. lia.
      * intros k Hk Hx. constructor; assumption.
      * intros k Hk Hx. constructor; assumption.
    + assert (Hlt : fst y < fst x) by (apply Z.gt_lt; exact Ecmp).
      destruct (icoins_add1 c x) as [r0|] eqn:E0; [|discriminate]. injection H as <-.
      destruct (IH x r0 (sorted_tail _ _ Hs) E0) as [S1 [Hamt [S3 S4]]].
      split; [apply sorted_cons; [apply S3; assumption|exact S1]|]. split; [|split].
      * intros d. cbn [amt]. cbn [amt] in Hamt. rewrite Hamt.
        destruct (fst y =? d) eqn:E3; [|lia]. apply Z.eqb_eq in E3.
        destruct (fst x =? d) eqn:E2; [apply Z.eqb_eq in E2; lia|lia].
      * intros k Hk Hx. inversion Hk; subst. constructor; [assumption|apply S3; assumption].
      * intros k Hk Hx. inversion Hk; subst. constructor; [assumption|apply S4; assumption].
Qed.

Lemma sep_tail : forall res (x : coin) c, sep res (x :: c) -> sep res c.
Proof. unfold sep; intros res x c H. rewrite Forall_forall in *. intros y Hy. specialize (H y Hy). inversion H; assumption. Qed.
Lemma sep_ub : forall res (x : coin) c, sep res (x :: c) -> ub (fst x) res.
Proof. unfold sep, ub; intros res x c H. rewrite Forall_forall in *. intros y Hy. specialize (H y Hy). inversion H; assumption. Qed.
Lemma ub_sep : forall res (x : coin) c, ub (fst x + 1) res -> lb (fst x) c -> sep res c.
Proof.
  unfold sep, ub; intros res x c H Hl. rewrite Forall_forall in *. intros y Hy. specialize (H y Hy).
  apply lb_weaken with (fst x); [lia|exact Hl].
Qed.
Lemma ub_weaken : forall k k' c, k <= k' -> ub k c -> ub k' c.
Proof. unfold ub; intros k k' c Hle H. rewrite Forall_forall in *. intros x Hx; specialize (H x Hx); lia. Qed.

Definition frac18 (a : Z) : Z := a - Z.quot a P18 * P18.

Lemma truncate_from_spec : forall c tc ch tc' ch', sorted c -> sorted tc -> canon ch -> sep tc c -> sep ch c ->
  truncate_decimal_from tc ch c = Some (tc', ch') ->
  sorted tc' /\ canon ch' /\
  (forall d, amt d tc' = amt d tc + Z.quot (amt d c) P18 /\ amt d ch' = amt d ch + frac18 (amt d c) /\ 0 <= amt d c).
Proof.
  induction c as [|x c IH]; intros tc ch tc' ch' Hc Htc Hch Hs1 Hs2 H; cbn [truncate_decimal_from] in H.
  - injection H as <- <-. repeat split; try apply Hch; auto; cbn [amt]; unfold frac18; rewrite ?Z.quot_0_l; try lia.
    pose proof P18_pos; lia. pose proof P18_pos; lia.
  - destruct (trunc_coin x) as [[t g]|] eqn:Et; [|discriminate].
    destruct (trunc_coin_spec x t g Et) as [-> [-> Hx]].
    pose proof (sorted_lb _ _ Hc) as Hl.
    set (q := Z.quot (snd x) P18) in *.
    assert (Htc1 : exists tc1, (if is_zero (fst x, q) then Some tc else icoins_add1 tc (fst x, q)) = Some tc1 /\
                   sorted tc1 /\ (forall d, amt d tc1 = amt d tc + amt d [(fst x, q)]) /\ sep tc1 c).
    { unfold is_zero. cbn [snd]. destruct (q =? 0) eqn:Eq.
      - apply Z.eqb_eq in Eq. exists tc. repeat split; auto.
        + intros d. cbn [amt fst snd]. rewrite Eq. destruct (fst x =? d); lia.
        + eapply sep_tail; exact Hs1.
      - destruct (icoins_add1 tc (fst x, q)) as [tc1|] eqn:E1.
        + destruct (icoins_add1_spec tc _ tc1 Htc E1) as [S1 [Hamt [_ S4]]].
          exists tc1. repeat split; auto.
          apply ub_sep with x; [|exact Hl]. apply S4; [|cbn; lia].
          apply ub_weaken with (fst x); [lia|]. eapply sep_ub; exact Hs1.
        + exfalso. unfold is_zero in H. cbn [snd] in H. rewrite ?Eq, ?E1 in H. discriminate. }
    destruct Htc1 as [tc1 [E1 [S1 [Hamt1 Hsep1]]]]. rewrite E1 in H.
    set (f := snd x - q * P18) in *.
    assert (Hch1 : exists ch1, (if is_zero (fst x, f) then Some ch else safe_add ch [((fst x, f) : coin)]) = Some ch1 /\
                   canon ch1 /\ (forall d, amt d ch1 = amt d ch + amt d [(fst x, f)]) /\ sep ch1 c).
    { unfold is_zero. cbn [snd]. destruct (f =? 0) eqn:Ef.
      - apply Z.eqb_eq in Ef. exists ch. repeat split; try apply Hch; auto.
        + intros d. cbn [amt fst snd]. rewrite Ef. destruct (fst x =? d); lia.
        + eapply sep_tail; exact Hs2.
      - destruct (safe_add ch [((fst x, f) : coin)]) as [ch1|] eqn:E2.
        + assert (Hs0 : sorted [(fst x, f)]) by (cbn; auto).
          destruct (safe_add_spec ch _ ch1 (proj1 Hch) Hs0 E2) as [C [Hamt [_ S4]]].
          exists ch1. repeat split; try apply C; auto.
          apply ub_sep with x; [|exact Hl]. apply S4.
          * apply ub_weaken with (fst x); [lia|]. eapply sep_ub; exact Hs2.
          * constructor; [cbn; lia|constructor].
        + exfalso. unfold is_zero in H. cbn [snd] in H. rewrite ?Ef, ?E2 in H. discriminate. }
    destruct Hch1 as [ch1 [E2 [C1 [Hamt2 Hsep2]]]]. rewrite E2 in H.
    destruct (IH tc1 ch1 tc' ch' (sorted_tail _ _ Hc) S1 C1 Hsep1 Hsep2 H) as [R1 [R2 R3]].
    split; [exact R1|]. split; [exact R2|].
    intros d. destruct (R3 d) as [A1 [A2 A3]]. rewrite A1, A2, Hamt1, Hamt2. cbn [amt fst snd].
    destruct (fst x =? d) eqn:E3.
    + apply Z.eqb_eq in E3. rewrite (amt_lb d (fst x) c Hl) by lia.
      unfold frac18. rewrite Z.quot_0_l by (pose proof P18_pos; lia). subst q f. repeat split; lia.
    + repeat split; lia.
Qed.

Lemma truncate_decimal_spec : forall c tc du, sorted c -> truncate_decimal c = Some (tc, du) ->
  sorted tc /\ canon du /\
  (forall d, amt d tc = Z.quot (amt d c) P18 /\ amt d du = frac18 (amt d c) /\ 0 <= amt d c).
Proof.
  intros c tc du Hc H. unfold truncate_decimal in H.
  assert (C0 : canon []) by (split; [exact I|constructor]).
  assert (S0 : sep [] c) by constructor.
  destruct (truncate_from_spec c [] [] tc du Hc I C0 S0 S0 H) as [R1 [R2 R3]].
  split; [exact R1|]. split; [exact R2|]. intros d. destruct (R3 d) as [A1 [A2 A3]].
  rewrite A1, A2. cbn [amt]. repeat split; lia.
Qed.

(* ---- NewDecCoinsFromCoins(truncated...).Add(dust...) gives the total back ---- *)
Lemma dec_coins_from_coins_spec : forall tc dc, dec_coins_from_coins tc = Some dc ->
  sorted dc /\ (forall d, amt d dc = amt d tc * P18).
Proof.
  intros tc dc H. unfold dec_coins_from_coins in H. destruct (icoins_valid tc) eqn:Ev; [|discriminate].
  injection H as <-. revert Ev. induction tc as [|x tc IH]; intros Ev; [split; [exact I|reflexivity]|].
  cbn [icoins_valid] in Ev. apply andb_true_iff in Ev. destruct Ev as [Ev Ev3]. apply andb_true_iff in Ev. destruct Ev as [Ev1 Ev2].
  destruct (IH Ev3) as [S1 Hamt]. split.
  - cbn [map]. destruct tc as [|y tc]; [cbn; auto|]. cbn [map]. split; [cbn [fst]; apply Z.ltb_lt; exact Ev2|exact S1].
  - intros d. cbn [map amt fst snd]. unfold d_from_int. destruct (fst x =? d); [reflexivity|apply Hamt].
Qed.

Lemma delete_return_spec : forall total tc du dc ret, sorted total ->
  truncate_decimal total = Some (tc, du) -> dec_coins_from_coins tc = Some dc -> safe_add dc du = Some ret ->
  canon ret /\ forall d, amt d ret = amt d total.
Proof.
  intros total tc du dc ret Hs Ht Hd Ha.
  destruct (truncate_decimal_spec total tc du Hs Ht) as [S1 [C2 Hamt]].
  destruct (dec_coins_from_coins_spec tc dc Hd) as [S3 Hamt3].
  destruct (safe_add_spec dc du ret S3 (proj1 C2) Ha) as [C [Hamt4 _]].
  split; [exact C|]. intros d. destruct (Hamt d) as [A1 [A2 _]].
  rewrite Hamt4, Hamt3, A1, A2. unfold frac18. lia.
Qed.
