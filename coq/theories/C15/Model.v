(* C15 model: osmoutils/accum (accum.go, accum_helpers.go, prefix.go, store_helper.go Get/MustSet) and the
   sdk.DecCoins / sdk.Coins operations it relies on (cosmos-sdk types/dec_coin.go, types/coin.go),
   function by function, as written.  Decimals are raw LegacyDec mantissas (value x 10^18, Base/DecModel.v);
   denominations and position names are integers (the harness owns the order-preserving bijection to strings).
   A [None] / [Panic] is a Go panic ("Int overflow", "negative coin amount", ...).  No proofs in this file. *)
From Coq Require Import ZArith List Bool.
Import ListNotations.
From Osmo Require Import Base.DecModel.
Open Scope Z_scope.

(* ------------------------------------------------------------------------------------------ *)
(* LegacyDec arithmetic with its range assertion (assertInValidRange: |raw| <= 2^256 * 10^18)  *)
Definition chk (z : Z) : option Z := if d_fits z then Some z else None.
Definition dec_add (a b : Z) : option Z := chk (a + b).          (* LegacyDec.Add / AddMut *)
Definition dec_sub (a b : Z) : option Z := chk (a - b).          (* LegacyDec.Sub / SubMut *)
Definition dec_mul (a b : Z) : option Z := chk (d_mul a b).      (* LegacyDec.Mul: half-even chop, then range *)
Definition int_fits (z : Z) : bool := bitlen z <=? 256.          (* math.Int: bigIntOverflows *)

(* ------------------------------------------------------------------------------------------ *)
(* sdk.DecCoins: a slice of (denom, amount)                                                    *)
Definition coin := (Z * Z)%type.
Definition coins := list coin.

Definition is_zero (c : coin) : bool := snd c =? 0.
Definition remove_zero (c : coins) : coins := filter (fun x => negb (is_zero x)) c.   (* removeZeroDecCoins *)
Definition push_nz (c : coin) (r : coins) : coins := if is_zero c then r else c :: r. (* "if !x.IsZero() { sum = append(sum, x) }" *)

(* DecCoins.safeAdd (= DecCoins.Add): ordered merge; equal denoms are added (DecCoin.Add -> LegacyDec.Add);
   zero coins are skipped everywhere *)
Fixpoint safe_add (a : coins) : coins -> option coins :=
  fix go (b : coins) : option coins :=
    match a with
    | [] => Some (remove_zero b)
    | ca :: a' =>
      match b with
      | [] => Some (remove_zero a)
      | cb :: b' =>
        match fst ca ?= fst cb with
        | Lt => option_map (push_nz ca) (safe_add a' b)
        | Eq => match dec_add (snd ca) (snd cb) with
                | None => None
                | Some s => option_map (push_nz (fst ca, s)) (safe_add a' b')
                end
        | Gt => option_map (push_nz cb) (go b')
        end
      end
    end.

Definition negate (c : coins) : coins := map (fun x => (fst x, - snd x)) c.     (* DecCoins.negative *)
Definition any_negative (c : coins) : bool := existsb (fun x => snd x <? 0) c.  (* DecCoins.IsAnyNegative *)

(* DecCoins.Sub: SafeSub, panic("negative coin amount") if any component is negative *)
Definition coins_sub (a b : coins) : option coins :=
  match safe_add a (negate b) with
  | None => None
  | Some d => if any_negative d then None else Some d
  end.

(* DecCoins.MulDec: res = res.Add(product) for every non-zero product *)
Fixpoint mul_dec_from (res : coins) (c : coins) (d : Z) : option coins :=
  match c with
  | [] => Some res
  | x :: c' =>
    match dec_mul (snd x) d with
    | None => None
    | Some p =>
      if p =? 0 then mul_dec_from res c' d
      else match safe_add res [(fst x, p)] with
           | None => None
           | Some r => mul_dec_from r c' d
           end
    end
  end.
Definition mul_dec (c : coins) (d : Z) : option coins := mul_dec_from [] c d.

(* DecCoin.TruncateDecimal: TruncateInt (NewIntFromBigIntMut: <= 256 bits), change = amount - truncated,
   NewCoin panics on a negative amount, NewDecCoinFromDec panics on a negative change *)
Definition trunc_coin (x : coin) : option (coin * coin) :=
  let t := d_truncate_int (snd x) in
  if negb (int_fits t) then None else
  match dec_sub (snd x) (d_from_int t) with
  | None => None
  | Some ch => if (t <? 0) || (ch <? 0) then None else Some ((fst x, t), (fst x, ch))
  end.

(* sdk.Coins.Add(coin) for a sorted, duplicate-free, zero-free receiver and a non-zero coin: the per-denom
   sums of Coins.safeAdd, sorted, zero sums dropped (Int.Add panics beyond 256 bits) *)
Fixpoint icoins_add1 (c : coins) (x : coin) : option coins :=
  match c with
  | [] => Some [x]
  | y :: c' =>
    match fst x ?= fst y with
    | Lt => Some (x :: c)
    | Eq => let s := snd x + snd y in
            if int_fits s then Some (push_nz (fst x, s) c') else None
    | Gt => option_map (cons y) (icoins_add1 c' x)
    end
  end.

(* DecCoins.TruncateDecimal -> (truncated sdk.Coins as integer amounts, change DecCoins) *)
Fixpoint truncate_decimal_from (tc ch : coins) (c : coins) : option (coins * coins) :=
  match c with
  | [] => Some (tc, ch)
  | x :: c' =>
    match trunc_coin x with
    | None => None
    | Some (t, g) =>
      match (if is_zero t then Some tc else icoins_add1 tc t) with
      | None => None
      | Some tc' =>
        match (if is_zero g then Some ch else safe_add ch [g]) with
        | None => None
        | Some ch' => truncate_decimal_from tc' ch' c'
        end
      end
    end
  end.
Definition truncate_decimal (c : coins) : option (coins * coins) := truncate_decimal_from [] [] c.

(* sdk.NewDecCoinsFromCoins(coins...): NewCoins sanitises and validates (panics unless strictly sorted
   and positive), then every amount becomes a decimal *)
Fixpoint icoins_valid (c : coins) : bool :=
  match c with
  | [] => true
  | x :: r => (0 <? snd x) && match r with [] => true | y :: _ => fst x <? fst y end && icoins_valid r
  end.
Definition dec_coins_from_coins (c : coins) : option coins :=
  if icoins_valid c then Some (map (fun x => (fst x, d_from_int (snd x))) c) else None.

(* ------------------------------------------------------------------------------------------ *)
(* the store restricted to one accumulator name: key "accum||acc||name" -> AccumulatorContent,   *)
(* keys "accum||pos||name||position" -> Record (prefix.go); proto round trip = identity          *)
Record content := mkC { c_value : coins; c_total : Z }.
Record record := mkR { r_shares : Z; r_snap : coins; r_unclaimed : coins }.
Definition pmap := list (Z * record).               (* sorted by position name *)
Record astore := mkA { a_content : option content; a_pos : pmap }.
(* AccumulatorObject: the receiver's private copy of value and total shares (store and name are fixed) *)
Record recv := mkV { v_value : coins; v_total : Z }.

Fixpoint p_get (n : Z) (m : pmap) : option record :=
  match m with
  | [] => None
  | (k, r) :: m' => if n =? k then Some r else p_get n m'
  end.
Fixpoint p_set (n : Z) (r : record) (m : pmap) : pmap :=
  match m with
  | [] => [(n, r)]
  | (k, r') :: m' =>
      if n <? k then (n, r) :: m
      else if n =? k then (n, r) :: m'
      else (k, r') :: p_set n r m'
  end.
Fixpoint p_del (n : Z) (m : pmap) : pmap :=
  match m with
  | [] => []
  | (k, r) :: m' => if n =? k then m' else (k, r) :: p_del n m'
  end.

Inductive err :=
| EAccumExists | EBadAccumName | ENoAccum | ENoPosition | EAddNonPositive
| ERemoveNonPositive | ERemoveTooMany | EZeroShares | ENegativeRewards.
Inductive res (A : Type) := Ok (a : A) | Err (e : err) | Panic.
Arguments Ok {A} a. Arguments Err {A} e. Arguments Panic {A}.

(* result, store as the call leaves it (after a panic: the partial writes), receiver as mutated *)
Record out (A : Type) := mkOut { o_res : res A; o_st : astore; o_rv : recv }.
Arguments mkOut {A}. Arguments o_res {A}. Arguments o_st {A}. Arguments o_rv {A}.

(* setAccumulator (the KeySeparator check is done in make_accumulator: the name never changes) *)
Definition set_accumulator (st : astore) (value : coins) (shares : Z) : astore :=
  mkA (Some (mkC value shares)) (a_pos st).

(* MakeAccumulator; [bad] = the name contains "||" *)
Definition make_accumulator (st : astore) (bad : bool) : res unit * astore :=
  match a_content st with
  | Some _ => (Err EAccumExists, st)
  | None => if bad then (Err EBadAccumName, st) else (Ok tt, set_accumulator st [] 0)
  end.

(* GetAccumulator *)
Definition get_accumulator (st : astore) : res recv :=
  match a_content st with
  | None => Err ENoAccum
  | Some c => Ok (mkV (c_value c) (c_total c))
  end.

(* initOrUpdatePosition *)
Definition init_or_update (st : astore) (snap : coins) (n : Z) (shares : Z) (unclaimed : coins) : astore :=
  mkA (a_content st) (p_set n (mkR shares snap unclaimed) (a_pos st)).

(* GetPosition *)
Definition get_position (st : astore) (n : Z) : res record :=
  match p_get n (a_pos st) with None => Err ENoPosition | Some r => Ok r end.

(* GetTotalRewards *)
Definition get_total_rewards (rv : recv) (p : record) : option coins :=
  match coins_sub (v_value rv) (r_snap p) with
  | None => None
  | Some diff =>
    match mul_dec diff (r_shares p) with
    | None => None
    | Some ar => safe_add (r_unclaimed p) ar
    end
  end.

(* AddToAccumulator *)
Definition add_to_accumulator (st : astore) (rv : recv) (amt : coins) : out unit :=
  match safe_add (v_value rv) amt with
  | None => mkOut Panic st rv
  | Some v => let rv' := mkV v (v_total rv) in
              mkOut (Ok tt) (set_accumulator st v (v_total rv)) rv'
  end.

(* the common tail "re-fetch accum from state, accum.totalShares = updated.totalShares +/- d, setAccumulator" *)
Definition refetch_and_set (st : astore) (rv : recv) (f : Z -> option Z) : out unit :=
  match get_accumulator st with
  | Err e => mkOut (Err e) st rv
  | Panic => mkOut Panic st rv
  | Ok upd =>
    match f (v_total upd) with
    | None => mkOut Panic st rv
    | Some t => let rv' := mkV (v_value rv) t in
                mkOut (Ok tt) (set_accumulator st (v_value rv') t) rv'
    end
  end.

(* NewPositionIntervalAccumulation (options.validate always returns nil) *)
Definition new_position_ia (st : astore) (rv : recv) (n s : Z) (ia : coins) : out unit :=
  let st1 := init_or_update st ia n s [] in
  refetch_and_set st1 rv (fun t => dec_add t s).
(* NewPosition *)
Definition new_position (st : astore) (rv : recv) (n s : Z) : out unit :=
  new_position_ia st rv n s (v_value rv).

(* AddToPositionIntervalAccumulation *)
Definition add_to_position_ia (st : astore) (rv : recv) (n s : Z) (ia : coins) : out unit :=
  if negb (0 <? s) then mkOut (Err EAddNonPositive) st rv else
  match get_position st n with
  | Err e => mkOut (Err e) st rv
  | Panic => mkOut Panic st rv
  | Ok pos =>
    match get_total_rewards rv pos with
    | None => mkOut Panic st rv
    | Some unclaimed =>
      match get_position st n with                           (* accum.GetPositionSize *)
      | Err e => mkOut (Err e) st rv
      | Panic => mkOut Panic st rv
      | Ok pos2 =>
        match dec_add (r_shares pos2) s with
        | None => mkOut Panic st rv
        | Some ns =>
          let st1 := init_or_update st ia n ns unclaimed in
          refetch_and_set st1 rv (fun t => dec_add t s)
        end
      end
    end
  end.
Definition add_to_position (st : astore) (rv : recv) (n s : Z) : out unit :=
  add_to_position_ia st rv n s (v_value rv).

(* RemoveFromPositionIntervalAccumulation *)
Definition remove_from_position_ia (st : astore) (rv : recv) (n s : Z) (ia : coins) : out unit :=
  if negb (0 <? s) then mkOut (Err ERemoveNonPositive) st rv else
  match get_position st n with
  | Err e => mkOut (Err e) st rv
  | Panic => mkOut Panic st rv
  | Ok pos =>
    if r_shares pos <? s then mkOut (Err ERemoveTooMany) st rv else
    match get_total_rewards rv pos with
    | None => mkOut Panic st rv
    | Some unclaimed =>
      match get_position st n with
      | Err e => mkOut (Err e) st rv
      | Panic => mkOut Panic st rv
      | Ok pos2 =>
        match dec_sub (r_shares pos2) s with
        | None => mkOut Panic st rv
        | Some ns =>
          let st1 := init_or_update st ia n ns unclaimed in
          refetch_and_set st1 rv (fun t => dec_sub t s)
        end
      end
    end
  end.
Definition remove_from_position (st : astore) (rv : recv) (n s : Z) : out unit :=
  remove_from_position_ia st rv n s (v_value rv).

(* UpdatePositionIntervalAccumulation *)
Definition update_position_ia (st : astore) (rv : recv) (n s : Z) (ia : coins) : out unit :=
  if s =? 0 then mkOut (Err EZeroShares) st rv
  else if s <? 0 then remove_from_position_ia st rv n (- s) ia
  else add_to_position_ia st rv n s ia.
Definition update_position (st : astore) (rv : recv) (n s : Z) : out unit :=
  update_position_ia st rv n s (v_value rv).

(* SetPositionIntervalAccumulation *)
Definition set_position_ia (st : astore) (rv : recv) (n : Z) (ia : coins) : out unit :=
  match get_position st n with
  | Err e => mkOut (Err e) st rv
  | Panic => mkOut Panic st rv
  | Ok pos => mkOut (Ok tt) (init_or_update st ia n (r_shares pos) (r_unclaimed pos)) rv
  end.

(* ClaimRewards -> (truncated coins, dust) *)
Definition claim_rewards (st : astore) (rv : recv) (n : Z) : out (coins * coins) :=
  match get_position st n with
  | Err _ => mkOut (Err ENoPosition) st rv
  | Panic => mkOut Panic st rv
  | Ok pos =>
    match get_total_rewards rv pos with
    | None => mkOut Panic st rv
    | Some total =>
      match truncate_decimal total with
      | None => mkOut Panic st rv
      | Some (tc, dust) =>
        let st1 := if r_shares pos =? 0
                   then mkA (a_content st) (p_del n (a_pos st))                         (* deletePosition *)
                   else init_or_update st (v_value rv) n (r_shares pos) [] in
        mkOut (Ok (tc, dust)) st1 rv
      end
    end
  end.

(* DeletePosition -> remaining rewards as DecCoins *)
Definition delete_position (st : astore) (rv : recv) (n : Z) : out coins :=
  match get_position st n with
  | Err e => mkOut (Err e) st rv
  | Panic => mkOut Panic st rv
  | Ok pos =>
    let c := claim_rewards st rv n in
    match o_res c with
    | Err e => mkOut (Err e) (o_st c) (o_rv c)
    | Panic => mkOut Panic (o_st c) (o_rv c)
    | Ok (tc, dust) =>
      let st1 := mkA (a_content (o_st c)) (p_del n (a_pos (o_st c))) in
      match dec_sub (v_total rv) (r_shares pos) with                                    (* totalShares.SubMut *)
      | None => mkOut Panic st1 rv
      | Some t =>
        let rv' := mkV (v_value rv) t in
        let st2 := set_accumulator st1 (v_value rv') t in
        match dec_coins_from_coins tc with
        | None => mkOut Panic st2 rv'
        | Some dc => match safe_add dc dust with
                     | None => mkOut Panic st2 rv'
                     | Some r => mkOut (Ok r) st2 rv'
                     end
        end
      end
    end
  end.

(* AddToUnclaimedRewards *)
Definition add_to_unclaimed (st : astore) (rv : recv) (n : Z) (c : coins) : out unit :=
  match get_position st n with
  | Err e => mkOut (Err e) st rv
  | Panic => mkOut Panic st rv
  | Ok pos =>
    if any_negative c then mkOut (Err ENegativeRewards) st rv else
    match safe_add (r_unclaimed pos) c with
    | None => mkOut Panic st rv
    | Some u => mkOut (Ok tt) (init_or_update st (r_snap pos) n (r_shares pos) u) rv
    end
  end.

(* ------------------------------------------------------------------------------------------ *)
(* one exported call on an AccumulatorObject                                                    *)
Inductive op :=
| OGrow (c : coins)
| ONew (n s : Z) | ONewIA (n s : Z) (ia : coins)
| OAdd (n s : Z) | OAddIA (n s : Z) (ia : coins)
| ORemove (n s : Z) | ORemoveIA (n s : Z) (ia : coins)
| OUpdate (n s : Z) | OUpdateIA (n s : Z) (ia : coins)
| OSetIA (n : Z) (ia : coins)
| OClaim (n : Z)
| ODelete (n : Z)
| OAddUnclaimed (n : Z) (c : coins).

Inductive ret := RUnit | RClaim (c dust : coins) | RDelete (c : coins).

Definition lift_unit (o : out unit) : out ret :=
  mkOut (match o_res o with Ok _ => Ok RUnit | Err e => Err e | Panic => Panic end) (o_st o) (o_rv o).

Definition step (st : astore) (rv : recv) (o : op) : out ret :=
  match o with
  | OGrow c => lift_unit (add_to_accumulator st rv c)
  | ONew n s => lift_unit (new_position st rv n s)
  | ONewIA n s ia => lift_unit (new_position_ia st rv n s ia)
  | OAdd n s => lift_unit (add_to_position st rv n s)
  | OAddIA n s ia => lift_unit (add_to_position_ia st rv n s ia)
  | ORemove n s => lift_unit (remove_from_position st rv n s)
  | ORemoveIA n s ia => lift_unit (remove_from_position_ia st rv n s ia)
  | OUpdate n s => lift_unit (update_position st rv n s)
  | OUpdateIA n s ia => lift_unit (update_position_ia st rv n s ia)
  | OSetIA n ia => lift_unit (set_position_ia st rv n ia)
  | OClaim n =>
      let c := claim_rewards st rv n in
      mkOut (match o_res c with Ok (tc, d) => Ok (RClaim tc d) | Err e => Err e | Panic => Panic end) (o_st c) (o_rv c)
  | ODelete n =>
      let c := delete_position st rv n in
      mkOut (match o_res c with Ok r => Ok (RDelete r) | Err e => Err e | Panic => Panic end) (o_st c) (o_rv c)
  | OAddUnclaimed n c => lift_unit (add_to_unclaimed st rv n c)
  end.

(* ------------------------------------------------------------------------------------------ *)
(* several accumulators in one store (disjoint key prefixes) and several live AccumulatorObject   *)
(* handles per accumulator.  A call that panics aborts the transaction: its writes are discarded   *)
(* (SDK cache store; modelled, not verified) and the handle is re-fetched.                         *)
Record world := mkW { w_accs : list (Z * astore); w_handles : list ((Z * Z) * recv) }.
Definition empty_astore : astore := mkA None [].
Definition init_world : world := mkW [] [].

Fixpoint acc_get (a : Z) (l : list (Z * astore)) : astore :=
  match l with
  | [] => empty_astore
  | (k, s) :: l' => if a =? k then s else acc_get a l'
  end.
Fixpoint acc_set (a : Z) (s : astore) (l : list (Z * astore)) : list (Z * astore) :=
  match l with
  | [] => [(a, s)]
  | (k, s') :: l' => if a =? k then (a, s) :: l' else (k, s') :: acc_set a s l'
  end.
Fixpoint h_get (a h : Z) (l : list ((Z * Z) * recv)) : option recv :=
  match l with
  | [] => None
  | ((a', h'), r) :: l' => if (a =? a') && (h =? h') then Some r else h_get a h l'
  end.
Fixpoint h_set (a h : Z) (r : recv) (l : list ((Z * Z) * recv)) : list ((Z * Z) * recv) :=
  match l with
  | [] => [((a, h), r)]
  | ((a', h'), r') :: l' => if (a =? a') && (h =? h') then ((a, h), r) :: l' else ((a', h'), r') :: h_set a h r l'
  end.

Inductive wop :=
| WMake (a : Z) (bad : bool)
| WOp (a h : Z) (fresh : bool) (o : op).    (* fresh: GetAccumulator first; otherwise reuse handle h if it exists *)

Definition wstep (w : world) (o : wop) : res ret * world :=
  match o with
  | WMake a bad =>
      (* an ill-formed name ("...||x") is a different store key, which never holds anything *)
      let '(r, st) := make_accumulator (if bad then empty_astore else acc_get a (w_accs w)) bad in
      (match r with Ok _ => Ok RUnit | Err e => Err e | Panic => Panic end,
       match r with Ok _ => mkW (acc_set a st (w_accs w)) (w_handles w) | _ => w end)
  | WOp a h fresh o =>
      let st := acc_get a (w_accs w) in
      let hv := if fresh then None else h_get a h (w_handles w) in
      let got := match hv with Some rv => Ok rv | None => get_accumulator st end in
      match got with
      | Err e => (Err e, w)
      | Panic => (Panic, w)
      | Ok rv =>
        let r := step st rv o in
        match o_res r with
        | Panic =>
            (Panic, mkW (w_accs w) (match get_accumulator st with
                                    | Ok rv0 => h_set a h rv0 (w_handles w)
                                    | _ => w_handles w end))
        | x => (x, mkW (acc_set a (o_st r) (w_accs w)) (h_set a h (o_rv r) (w_handles w)))
        end
      end
  end.
