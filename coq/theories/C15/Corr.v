(* C15 correspondence glue: run the model on a harness case and flatten its observables exactly as
   harness/c15drv/main.go flattens the implementation's. *)
From Coq Require Import ZArith List Bool.
Import ListNotations.
From Osmo Require Import Base.Obs Base.DecModel C15.Model.
Open Scope Z_scope.

Record case := mkCase {
  c_nnames : nat;          (* position names 0 .. nnames-1 are observed *)
  c_naccs : nat;           (* accumulators 0 .. naccs-1 are observed at the end *)
  c_ops : list wop;
  c_expect : Z }.          (* digest of the implementation's flattened observations *)

(* typed errors (NoPositionError, AccumDoesNotExistError, NegativeRewardsAdditionError, ZeroSharesError) are told
   apart; the untyped ones (errors.New / fmt.Errorf) are one class - their text is not an observable *)
Definition err_code (e : err) : Z :=
  match e with
  | ENoAccum => 3 | ENoPosition => 4 | EZeroShares => 8 | ENegativeRewards => 9
  | EAccumExists | EBadAccumName | EAddNonPositive | ERemoveNonPositive | ERemoveTooMany => 5
  end.

Definition flat_coins (c : coins) : list Z :=
  Z.of_nat (length c) :: flat_map (fun x => [fst x; snd x]) c.

Definition flat_res (r : res ret) : list Z :=
  match r with
  | Ok RUnit => [0; 0]
  | Ok (RClaim c d) => [0; 1] ++ flat_coins c ++ flat_coins d
  | Ok (RDelete c) => [0; 2] ++ flat_coins c
  | Err e => [err_code e; 0]
  | Panic => [99; 0]
  end.

Definition flat_recv (r : option recv) : list Z :=
  match r with
  | None => [0]
  | Some v => [1; v_total v] ++ flat_coins (v_value v)
  end.

Definition flat_pos (st : astore) (n : Z) : list Z :=
  match p_get n (a_pos st) with
  | None => [0]
  | Some r => [1; r_shares r] ++ flat_coins (r_snap r) ++ flat_coins (r_unclaimed r)
  end.

Fixpoint upto (n : nat) : list Z :=
  match n with O => [] | S k => upto k ++ [Z.of_nat k] end.

(* fresh GetAccumulator + GetPosition/HasPosition of every name *)
Definition flat_store (nn : nat) (st : astore) : list Z :=
  flat_recv (match get_accumulator st with Ok v => Some v | _ => None end)
  ++ flat_map (flat_pos st) (upto nn).

Definition flat_step (nn : nat) (w : world) (o : wop) (r : res ret) : list Z :=
  match o with
  | WMake a _ => flat_res r ++ flat_store nn (acc_get a (w_accs w))
  | WOp a h _ _ => flat_res r ++ flat_recv (h_get a h (w_handles w)) ++ flat_store nn (acc_get a (w_accs w))
  end.

Fixpoint scan (nn : nat) (w : world) (ops : list wop) : list Z * world :=
  match ops with
  | [] => ([], w)
  | o :: r => let '(x, w1) := wstep w o in
              let '(l, w2) := scan nn w1 r in (flat_step nn w1 o x ++ l, w2)
  end.

Definition model_obs (c : case) : list Z :=
  let '(l, w) := scan (c_nnames c) init_world (c_ops c) in
  l ++ [-2] ++ flat_map (fun a => flat_store (c_nnames c) (acc_get a (w_accs w))) (upto (c_naccs c)).

(* Coq elaborates a 60-digit literal in milliseconds, and an observation list has ~10^4 of them per dozen
   cases; so the two observation lists are compared through a digest: a polynomial hash modulo 2^512 with
   an odd base (every observable is below 2^320 in absolute value, so two lists of equal length that differ
   in exactly one entry always have different digests; several differences cancel only by accident).
   props/c15.py computes the same digest of the implementation's list; on a mismatch it asks Coq for the
   model's full list and reports the first differing call. *)
Definition HM : Z := Eval vm_compute in 2 ^ 512 - 1.
Definition HB : Z := 65537.   (* two one-bits: Pos.mul does two additions *)
Definition zhash (l : list Z) : Z := fold_left (fun h x => Z.land (HB * h + x + 1) HM) l 7.

Definition case_ok (c : case) : bool := zhash (model_obs c) =? c_expect c.
