(* C15: when can a call panic?  Only when one of the range assertions of LegacyDec / math.Int fails or (interval
   API) when a reference point lies above the accumulator value.  Stated on the ghost quantities. *)
From Coq Require Import ZArith List Bool Lia.
Import ListNotations.
From Osmo Require Import Base.DecModel C15.Model C15.Spec C15.ProofsMap C15.ProofsStep C15.ProofsInv1
  C15.ProofsCoins C15.ProofsInv2 C15.ProofsSpec C15.ProofsMain.
Open Scope Z_scope.

Lemma d_fits_0 : d_fits 0 = true.
Proof. reflexivity. Qed.

Lemma chk_none : forall z, chk z = None -> d_fits z = false.
Proof. unfold chk; intros z; destruct (d_fits z); [discriminate|reflexivity]. Qed.
Lemma chk_fits : forall z r, chk z = Some r -> d_fits r = true.
Proof. unfold chk; intros z r; destruct (d_fits z) eqn:E; [intros H; injection H as <-; exact E|discriminate]. Qed.

Lemma d_fits_between : forall z z', 0 <= z <= z' -> d_fits z' = true -> d_fits z = true.
Proof.
  unfold d_fits. intros z z' H E. apply andb_true_iff in E. destruct E as [E1 E2].
  apply Z.leb_le in E1. apply Z.leb_le in E2. apply andb_true_iff. split; apply Z.leb_le; lia.
Qed.

Definition allfit (c : coins) : Prop := forall d, d_fits (amt d c) = true.

Lemma allfit_nil : allfit [].
Proof. intros d; reflexivity. Qed.

(* ---- safeAdd panics only when a matched pair overflows ---- *)
Lemma safe_add_none : forall a b, sorted a -> sorted b -> safe_add a b = None ->
  exists d, d_fits (amt d a + amt d b) = false.
Proof.
  induction a as [|ca a' IHa].
  - intros b _ _ H. rewrite safe_add_eq in H. discriminate.
  - induction b as [|cb b' IHb]; intros Ha Hb H; rewrite safe_add_eq in H; [discriminate|].
    pose proof (sorted_lb _ _ Ha) as Hla. pose proof (sorted_lb _ _ Hb) as Hlb.
    destruct (fst ca ?= fst cb) eqn:Ecmp.
    + apply Z.compare_eq in Ecmp.
      destruct (dec_add (snd ca) (snd cb)) as [s|] eqn:Es.
      * destruct (safe_add a' b') as [r0|] eqn:E0; [discriminate|].
        destruct (IHa b' (sorted_tail _ _ Ha) (sorted_tail _ _ Hb) E0) as [d Hd].
        exists d. cbn [amt]. rewrite <- Ecmp.
        destruct (fst ca =? d) eqn:E2; [|exact Hd].
        apply Z.eqb_eq in E2. rewrite (amt_lb d (fst ca) a' Hla), (amt_lb d (fst cb) b' Hlb) in Hd by lia.
        discriminate.
      * apply chk_none in Es. exists (fst ca). cbn [amt]. rewrite <- Ecmp, Z.eqb_refl. exact Es.
    + assert (Hlt : fst ca < fst cb) by exact Ecmp.
      destruct (safe_add a' (cb :: b')) as [r0|] eqn:E0; [discriminate|].
      destruct (IHa (cb :: b') (sorted_tail _ _ Ha) Hb E0) as [d Hd].
      exists d. rewrite (amt_cons d ca a').
      destruct (fst ca =? d) eqn:E2; [|exact Hd].
      apply Z.eqb_eq in E2. rewrite (amt_lb d (fst ca) a' Hla) in Hd by lia.
      rewrite (amt_lb d (fst ca) (cb :: b')) in Hd; [discriminate| |lia].
      constructor; [exact Hlt|apply lb_weaken with (fst cb); [lia|exact Hlb]].
    + assert (Hlt : fst cb < fst ca) by (apply Z.gt_lt; exact Ecmp).
      destruct (safe_add (ca :: a') b') as [r0|] eqn:E0; [discriminate|].
      destruct (IHb Ha (sorted_tail _ _ Hb) eq_refl) as [d Hd].
      exists d. rewrite (amt_cons d cb b').
      destruct (fst cb =? d) eqn:E2; [|exact Hd].
      apply Z.eqb_eq in E2. rewrite (amt_lb d (fst cb) b' Hlb) in Hd by lia.
      rewrite (amt_lb d (fst cb) (ca :: a')) in Hd; [discriminate| |lia].
      constructor; [exact Hlt|apply lb_weaken with (fst ca); [lia|exact Hla]].
Qed.

Lemma any_negative_true : forall c, sorted c -> any_negative c = true -> exists d, amt d c < 0.
Proof.
  induction c as [|x c IH]; intros Hs En; cbn in En; [discriminate|].
  apply orb_true_iff in En. destruct En as [En|En].
  - apply Z.ltb_lt in En. exists (fst x). cbn [amt]. rewrite Z.eqb_refl. exact En.
  - destruct (IH (sorted_tail _ _ Hs) En) as [d Hd]. exists d. cbn [amt].
    destruct (fst x =? d) eqn:E2; [|exact Hd]. apply Z.eqb_eq in E2.
    rewrite (amt_lb d (fst x) c (sorted_lb _ _ Hs)) in Hd by lia. lia.
Qed.

Lemma coins_sub_none : forall a b, sorted a -> sorted b -> coins_sub a b = None ->
  exists d, d_fits (amt d a - amt d b) = false \/ amt d a - amt d b < 0.
Proof.
  intros a b Ha Hb H. unfold coins_sub in H.
  destruct (safe_add a (negate b)) as [r0|] eqn:E.
  - destruct (any_negative r0) eqn:En; [|discriminate].
    destruct (safe_add_spec a (negate b) r0 Ha (negate_sorted b Hb) E) as [[S1 _] [Hamt _]].
    destruct (any_negative_true r0 S1 En) as [d Hd].
    exists d. right. rewrite Hamt, amt_negate in Hd. lia.
  - destruct (safe_add_none a (negate b) Ha (negate_sorted b Hb) E) as [d Hd].
    exists d. left. rewrite amt_negate in Hd. replace (amt d a - amt d b) with (amt d a + - amt d b) by lia. exact Hd.
Qed.

(* adding a single coin beyond the last denomination cannot panic *)
Lemma safe_add_single_some : forall res k p, sorted res -> ub k res -> allfit res -> d_fits p = true ->
  exists r, safe_add res [(k, p)] = Some r.
Proof.
  intros res k p Hs Hu Hf Hp. destruct (safe_add res [(k, p)]) as [r|] eqn:E; [eauto|].
  assert (Hs1 : sorted [(k, p)]) by (cbn; auto).
  destruct (safe_add_none res _ Hs Hs1 E) as [d Hd]. exfalso. cbn [amt fst snd] in Hd.
  destruct (k =? d) eqn:E2.
  - apply Z.eqb_eq in E2. rewrite (amt_ub d k res Hu) in Hd by lia. cbn in Hd. congruence.
  - rewrite Z.add_0_r in Hd. rewrite (Hf d) in Hd. discriminate.
Qed.

Lemma mul_dec_from_none : forall c s res, sorted c -> canon res -> sep res c -> allfit res ->
  mul_dec_from res c s = None -> exists d, d_fits (d_mul (amt d c) s) = false.
Proof.
  induction c as [|x c IH]; intros s res Hc [Hr1 Hr2] Hsep Hf H; cbn in H; [discriminate|].
  pose proof (sorted_lb _ _ Hc) as Hl.
  assert (Hlift : (exists d, d_fits (d_mul (amt d c) s) = false) -> exists d, d_fits (d_mul (amt d (x :: c)) s) = false).
  { intros [d Hd]. exists d. cbn [amt]. destruct (fst x =? d) eqn:E2; [|exact Hd].
    apply Z.eqb_eq in E2. rewrite (amt_lb d (fst x) c Hl) in Hd by lia. rewrite d_mul_0_l in Hd. discriminate. }
  destruct (dec_mul (snd x) s) as [p|] eqn:Ep.
  - pose proof (chk_fits _ _ Ep) as Hpf. apply dec_mul_some in Ep. subst p.
    destruct (d_mul (snd x) s =? 0) eqn:Ez.
    + apply Hlift. apply (IH s res (sorted_tail _ _ Hc) (conj Hr1 Hr2)); auto. eapply sep_tail; exact Hsep.
    + destruct (safe_add_single_some res (fst x) (d_mul (snd x) s) Hr1 (sep_ub _ _ _ Hsep) Hf Hpf) as [r1 E1].
      rewrite E1 in H.
      assert (Hs1 : sorted [(fst x, d_mul (snd x) s)]) by (cbn; auto).
      destruct (safe_add_spec res _ r1 Hr1 Hs1 E1) as [[S1 S2] [Hamt1 [S3 S4]]].
      apply Hlift. apply (IH s r1 (sorted_tail _ _ Hc) (conj S1 S2)); auto.
      * apply ub_sep with x; [|exact Hl]. apply S4.
        -- apply ub_weaken with (fst x); [lia|]. eapply sep_ub; exact Hsep.
        -- constructor; [cbn; lia|constructor].
      * intros d. rewrite Hamt1. cbn [amt fst snd]. destruct (fst x =? d) eqn:E2.
        -- apply Z.eqb_eq in E2. rewrite (amt_ub d (fst x) res (sep_ub _ _ _ Hsep)) by lia. exact Hpf.
        -- rewrite Z.add_0_r. apply Hf.
  - apply chk_none in Ep. exists (fst x). cbn [amt]. rewrite Z.eqb_refl. exact Ep.
Qed.

Lemma mul_dec_none : forall c s, sorted c -> mul_dec c s = None -> exists d, d_fits (d_mul (amt d c) s) = false.
Proof.
  intros c s Hc H. apply (mul_dec_from_none c s [] Hc); auto.
  - split; [exact I|constructor].
  - constructor.
  - exact allfit_nil.
Qed.

(* ---- TruncateDecimal panics only on a negative amount or a quotient beyond 256 bits ---- *)
Lemma icoins_add1_append_some : forall c x, ub (fst x) c -> exists r, icoins_add1 c x = Some r.
Proof.
  induction c as [|y c IH]; intros x Hu; cbn [icoins_add1]; [eauto|].
  inversion Hu; subst. assert (E : (fst x ?= fst y) = Gt) by (apply Z.compare_gt_iff; assumption).
  rewrite E. destruct (IH x) as [r Hr]; [assumption|]. rewrite Hr. cbn. eauto.
Qed.

Lemma trunc_coin_none : forall x, trunc_coin x = None ->
  snd x < 0 \/ int_fits (Z.quot (snd x) P18) = false \/ d_fits (frac18 (snd x)) = false.
Proof.
  intros x H. unfold trunc_coin, d_truncate_int, d_from_int in H.
  destruct (int_fits (Z.quot (snd x) P18)) eqn:Ei; cbn [negb] in H; [|auto].
  destruct (dec_sub (snd x) (Z.quot (snd x) P18 * P18)) as [ch|] eqn:E.
  - apply dec_sub_some in E. subst ch.
    destruct ((Z.quot (snd x) P18 <? 0) || (snd x - Z.quot (snd x) P18 * P18 <? 0)) eqn:En; [|discriminate].
    left. apply orb_true_iff in En. pose proof P18_pos as Hp.
    destruct (Z_lt_le_dec (snd x) 0) as [Hneg|Hnn]; [exact Hneg|exfalso].
    pose proof (Z.quot_pos (snd x) P18 Hnn Hp) as Hq.
    pose proof (Z.quot_rem' (snd x) P18) as Hqr.
    pose proof (Z.rem_bound_pos (snd x) P18 Hnn Hp) as Hr.
    destruct En as [En|En]; apply Z.ltb_lt in En; lia.
  - apply chk_none in E. right; right. exact E.
Qed.

Lemma truncate_from_none : forall c tc ch, sorted c -> sorted tc -> canon ch -> sep tc c -> sep ch c -> allfit ch ->
  truncate_decimal_from tc ch c = None ->
  exists d, amt d c < 0 \/ int_fits (Z.quot (amt d c) P18) = false \/ d_fits (frac18 (amt d c)) = false.
Proof.
  induction c as [|x c IH]; intros tc ch Hc Htc Hch Hs1 Hs2 Hf H; cbn [truncate_decimal_from] in H; [discriminate|].
  pose proof (sorted_lb _ _ Hc) as Hl.
  assert (Hlift : (exists d, amt d c < 0 \/ int_fits (Z.quot (amt d c) P18) = false \/ d_fits (frac18 (amt d c)) = false) ->
                  exists d, amt d (x :: c) < 0 \/ int_fits (Z.quot (amt d (x :: c)) P18) = false \/ d_fits (frac18 (amt d (x :: c))) = false).
  { intros [d Hd]. exists d. cbn [amt]. destruct (fst x =? d) eqn:E2; [|exact Hd].
    apply Z.eqb_eq in E2. rewrite (amt_lb d (fst x) c Hl) in Hd by lia. exfalso.
    destruct Hd as [Hd|[Hd|Hd]]; [lia|vm_compute in Hd; discriminate|vm_compute in Hd; discriminate]. }
  destruct (trunc_coin x) as [[t g]|] eqn:Et.
  2:{ exists (fst x). cbn [amt]. rewrite Z.eqb_refl. apply trunc_coin_none; exact Et. }
  destruct (trunc_coin_spec x t g Et) as [-> [-> Hx]].
  set (q := Z.quot (snd x) P18) in *. set (f := snd x - q * P18) in *.
  assert (Hgf : d_fits f = true).
  { unfold trunc_coin, d_truncate_int, d_from_int in Et. fold q in Et.
    destruct (negb (int_fits q)); [discriminate|].
    destruct (dec_sub (snd x) (q * P18)) as [chh|] eqn:E; [|discriminate].
    pose proof (chk_fits _ _ E) as K. apply dec_sub_some in E. subst chh. exact K. }
  (* the truncated coin is appended *)
  assert (Htc1 : exists tc1, (if is_zero (fst x, q) then Some tc else icoins_add1 tc (fst x, q)) = Some tc1 /\ sorted tc1 /\ sep tc1 c).
  { unfold is_zero. cbn [snd]. destruct (q =? 0) eqn:Eq.
    - exists tc. repeat split; auto. eapply sep_tail; exact Hs1.
    - destruct (icoins_add1_append_some tc (fst x, q)) as [tc1 E1]; [cbn; eapply sep_ub; exact Hs1|].
      destruct (icoins_add1_spec tc _ tc1 Htc E1) as [S1 [_ [_ S4]]].
      exists tc1. repeat split; auto.
      apply ub_sep with x; [|exact Hl]. apply S4; [|cbn; lia].
      apply ub_weaken with (fst x); [lia|]. eapply sep_ub; exact Hs1. }
  destruct Htc1 as [tc1 [E1 [S1 Hsep1]]]. rewrite E1 in H.
  assert (Hch1 : exists ch1, (if is_zero (fst x, f) then Some ch else safe_add ch [((fst x, f) : coin)]) = Some ch1 /\
                 canon ch1 /\ sep ch1 c /\ allfit ch1).
  { unfold is_zero. cbn [snd]. destruct (f =? 0) eqn:Ef.
    - exists ch. repeat split; try apply Hch; auto. eapply sep_tail; exact Hs2.
    - destruct (safe_add_single_some ch (fst x) f (proj1 Hch) (sep_ub _ _ _ Hs2) Hf Hgf) as [ch1 E2].
      assert (Hs0 : sorted [((fst x, f) : coin)]) by (cbn; auto).
      destruct (safe_add_spec ch _ ch1 (proj1 Hch) Hs0 E2) as [C [Hamt [_ S4]]].
      exists ch1. split; [exact E2|]. split; [exact C|]. split.
      + apply ub_sep with x; [|exact Hl]. apply S4.
        * apply ub_weaken with (fst x); [lia|]. eapply sep_ub; exact Hs2.
        * constructor; [cbn; lia|constructor].
      + intros d. rewrite Hamt. cbn [amt fst snd]. destruct (fst x =? d) eqn:E3.
        * apply Z.eqb_eq in E3. rewrite (amt_ub d (fst x) ch (sep_ub _ _ _ Hs2)) by lia. exact Hgf.
        * rewrite Z.add_0_r. apply Hf. }
  destruct Hch1 as [ch1 [E2 [C1 [Hsep2 Hf1]]]]. rewrite E2 in H.
  apply Hlift. apply (IH tc1 ch1 (sorted_tail _ _ Hc) S1 C1 Hsep1 Hsep2 Hf1 H).
Qed.

Lemma truncate_decimal_none : forall c, sorted c -> truncate_decimal c = None ->
  exists d, amt d c < 0 \/ int_fits (Z.quot (amt d c) P18) = false \/ d_fits (frac18 (amt d c)) = false.
Proof.
  intros c Hc H. apply (truncate_from_none c [] [] Hc I); auto.
  - split; [exact I|constructor].
  - constructor.
  - constructor.
  - exact allfit_nil.
Qed.

(* ---- GetTotalRewards ---- *)
Lemma gtr_none : forall rv pos, sorted (v_value rv) -> sorted (r_snap pos) -> sorted (r_unclaimed pos) ->
  get_total_rewards rv pos = None ->
  exists d, let diff := amt d (v_value rv) - amt d (r_snap pos) in
            diff < 0 \/ d_fits diff = false \/ d_fits (d_mul diff (r_shares pos)) = false \/
            d_fits (amt d (r_unclaimed pos) + d_mul diff (r_shares pos)) = false.
Proof.
  intros rv pos Hv Hs Hu H. unfold get_total_rewards in H.
  destruct (coins_sub (v_value rv) (r_snap pos)) as [diff|] eqn:E1.
  - destruct (coins_sub_spec _ _ _ Hv Hs E1) as [[D1 D2] [Hd _]].
    destruct (mul_dec diff (r_shares pos)) as [ar|] eqn:E2.
    + destruct (mul_dec_spec _ _ _ D1 E2) as [[M1 M2] Hm].
      destruct (safe_add_none _ _ Hu M1 H) as [d Hd2]. exists d. cbv zeta. right; right; right.
      rewrite Hm, Hd in Hd2. exact Hd2.
    + destruct (mul_dec_none _ _ D1 E2) as [d Hd2]. exists d. cbv zeta. right; right; left. rewrite Hd in Hd2. exact Hd2.
  - destruct (coins_sub_none _ _ Hv Hs E1) as [d [Hd|Hd]]; exists d; cbv zeta; auto.
Qed.

(* what can make the rewards computation of name n panic, on the ghost quantities *)
Definition rewards_overflow (tr : trace) (n : Z) : Prop :=
  exists d, pending tr n d < 0 \/ d_fits (pending tr n d) = false \/
            d_fits (d_mul (pending tr n d) (shares tr n)) = false \/ d_fits (claimable tr n d) = false.
(* ... and its truncation *)
Definition payout_overflow (tr : trace) (n : Z) : Prop :=
  exists d, claimable tr n d < 0 \/ int_fits (Z.quot (claimable tr n d) P18) = false \/ d_fits (claimable tr n d) = false.

Lemma frac18_bounds : forall a, 0 <= a -> 0 <= frac18 a <= a.
Proof.
  intros a Ha. unfold frac18. pose proof P18_pos as Hp.
  pose proof (Z.quot_rem' a P18) as Hqr. pose proof (Z.rem_bound_pos a P18 Ha Hp) as Hr.
  pose proof (Z.quot_pos a P18 Ha Hp) as Hq. nia.
Qed.

Lemma gtr_none_ghost : forall tr n rv pos,
  val_ok tr (v_value rv) -> rec_ok tr n pos -> r_shares pos = shares tr n ->
  get_total_rewards rv pos = None -> rewards_overflow tr n.
Proof.
  intros tr n rv pos [Hv1 Hv2] [Hs [Hu [Hsn Hun]]] Hsh H.
  destruct (gtr_none rv pos Hv1 Hs Hu H) as [d Hd]. cbv zeta in Hd. exists d.
  rewrite Hv2, Hsn, Hsh, Hun in Hd. fold (pending tr n d) in Hd.
  replace (settled tr n d + d_mul (pending tr n d) (shares tr n)) with (claimable tr n d) in Hd; [exact Hd|].
  unfold claimable, intervals, settled. cbn [sum_dmul fold_right fst snd]. unfold sum_dmul. lia.
Qed.

Lemma payout_none_ghost : forall tr n total, sorted total -> (forall d, amt d total = claimable tr n d) ->
  truncate_decimal total = None -> payout_overflow tr n.
Proof.
  intros tr n total Ct Hcl Ht.
  destruct (truncate_decimal_none total Ct Ht) as [d Hd]. rewrite Hcl in Hd. exists d.
  destruct Hd as [Hd|[Hd|Hd]]; auto.
  destruct (Z_lt_le_dec (claimable tr n d) 0) as [Hneg|Hnn]; [auto|].
  right; right. destruct (d_fits (claimable tr n d)) eqn:Ef; [|reflexivity].
  rewrite (d_fits_between _ _ (frac18_bounds _ Hnn) Ef) in Hd. discriminate.
Qed.

(* a claim panics only for these reasons *)
Lemma claim_panic_reason : forall tr st rv n, hist tr st -> recv_ok st rv (OClaim n) ->
  o_res (step st rv (OClaim n)) = Panic -> rewards_overflow tr n \/ payout_overflow tr n.
Proof.
  intros tr st rv n Hh [c [Hc [Hv _]]] Hres.
  destruct (hist_inv tr st Hh) as [[c1 [Hc1 [Hps [Htot Hpos]]]] [c2 [Hc2 [Hval Hrec]]]].
  rewrite Hc in Hc1, Hc2. injection Hc1 as <-. injection Hc2 as <-.
  cbn [step o_res] in Hres. unfold claim_rewards, get_position in Hres.
  destruct (p_get n (a_pos st)) as [pos|] eqn:Hg; [|discriminate].
  pose proof (Hpos n) as Hpn. rewrite Hg in Hpn. destruct Hpn as [_ Hsh].
  assert (Hval' : val_ok tr (v_value rv)) by (rewrite (Hv eq_refl); exact Hval).
  destruct (get_total_rewards rv pos) as [total|] eqn:Hr.
  - right. destruct (gtr_claimable tr n rv pos total Hval' (Hrec n pos Hg) Hsh Hr) as [[Ct _] Hcl].
    destruct (truncate_decimal total) as [[tc du]|] eqn:Ht; [discriminate|].
    eapply payout_none_ghost; eauto.
  - left. eapply gtr_none_ghost; eauto.
Qed.

(* ---- third invariant: share counts and unclaimed rewards of every record are non-negative ---- *)
Definition rec3 (r : record) : Prop := 0 <= r_shares r /\ forall d, 0 <= amt d (r_unclaimed r).
Definition Inv3 (st : astore) : Prop := forall n r, p_get n (a_pos st) = Some r -> rec3 r.

Lemma chop_round_nonneg_nonneg : forall a, 0 <= a -> 0 <= chop_round_nonneg P18 a.
Proof.
  intros a Ha. unfold chop_round_nonneg. pose proof P18_pos as Hp.
  pose proof (Z.quot_pos a P18 Ha Hp) as Hq.
  destruct (Z.rem a P18 =? 0); [exact Hq|].
  destruct (Z.rem a P18 ?= Z.quot P18 2); [destruct (Z.even (Z.quot a P18))| |]; lia.
Qed.
Lemma d_mul_nonneg : forall a b, 0 <= a -> 0 <= b -> 0 <= d_mul a b.
Proof.
  intros a b Ha Hb. unfold d_mul, chop_round. assert (0 <= a * b) by nia.
  destruct (a * b <? 0) eqn:E; [apply Z.ltb_lt in E; lia|]. apply chop_round_nonneg_nonneg; assumption.
Qed.

Lemma gtr_nonneg : forall rv pos total, sorted (v_value rv) -> sorted (r_snap pos) -> sorted (r_unclaimed pos) ->
  rec3 pos -> get_total_rewards rv pos = Some total ->
  (forall d, 0 <= amt d total) /\ (forall d, 0 <= amt d (v_value rv) - amt d (r_snap pos)).
Proof.
  intros rv pos total Hv Hs Hu [Hsh Hun] H. unfold get_total_rewards in H.
  destruct (coins_sub (v_value rv) (r_snap pos)) as [diff|] eqn:E1; [|discriminate].
  destruct (mul_dec diff (r_shares pos)) as [ar|] eqn:E2; [|discriminate].
  destruct (coins_sub_spec _ _ _ Hv Hs E1) as [[D1 D2] [Hd Hnn]].
  destruct (mul_dec_spec _ _ _ D1 E2) as [[M1 M2] Hm].
  destruct (safe_add_spec _ _ _ Hu M1 H) as [C [Ha _]].
  split.
  - intros d. rewrite Ha, Hm. pose proof (Hun d). pose proof (d_mul_nonneg (amt d diff) (r_shares pos) (Hnn d) Hsh). lia.
  - intros d. rewrite <- Hd. apply Hnn.
Qed.

Lemma inv3_set : forall st c n r', Inv3 st -> rec3 r' -> Inv3 (mkA c (p_set n r' (a_pos st))).
Proof.
  intros st c n r' H Hr m r Hg. cbn [a_pos] in Hg. destruct (Z.eq_dec m n) as [->|Hne].
  - rewrite p_get_p_set_same in Hg. injection Hg as <-. exact Hr.
  - rewrite p_get_p_set_other in Hg by exact Hne. apply (H m r Hg).
Qed.
Lemma inv3_del : forall st c n, psorted (a_pos st) -> Inv3 st -> Inv3 (mkA c (p_del n (a_pos st))).
Proof.
  intros st c n Hs H m r Hg. cbn [a_pos] in Hg. destruct (Z.eq_dec m n) as [->|Hne].
  - rewrite p_get_p_del_same in Hg by exact Hs. discriminate.
  - rewrite p_get_p_del_other in Hg by exact Hne. apply (H m r Hg).
Qed.

Lemma step_inv3 : forall tr st rv o x, Inv1 tr st -> Inv2 tr st -> Inv3 st -> dom tr o -> recv_ok st rv o ->
  o_res (step st rv o) = Ok x -> Inv3 (o_st (step st rv o)).
Proof.
  intros tr st rv o x H1 H2 H3 Hdom [c [Hc [Hv Htot]]] Hres.
  pose proof H1 as [c1 [Hc1 [Hps [Htot1 Hpos]]]]. rewrite Hc in Hc1. injection Hc1 as <-.
  pose proof H2 as [c2 [Hc2 [Hval Hrec]]]. rewrite Hc in Hc2. injection Hc2 as <-.
  assert (Hchange : forall n dl sn pos unc t, needs_value o = true ->
            p_get n (a_pos st) = Some pos -> get_total_rewards rv pos = Some unc -> 0 <= r_shares pos + dl ->
            Inv3 (mkA (Some (mkC (v_value rv) t)) (p_set n (mkR (r_shares pos + dl) sn unc) (a_pos st)))).
  { intros n dl sn pos unc t Hnv Hg Hr Hnn. apply inv3_set; [exact H3|].
    destruct (Hrec n pos Hg) as [R1 [R2 _]].
    assert (Hvs : sorted (v_value rv)) by (rewrite (Hv Hnv); apply Hval).
    destruct (gtr_nonneg rv pos unc Hvs R1 R2 (H3 n pos Hg) Hr) as [K _].
    split; [exact Hnn|exact K]. }
  destruct o; cbn [step lift_unit o_res o_st] in *.
  - destruct (grow_cases st rv c0) as [H|[v [_ [H [Hst _]]]]]; rewrite H in Hres; [discriminate|].
    rewrite Hst. intros m r Hg. apply (H3 m r Hg).
  - unfold new_position in *.
    destruct (new_ia_cases st rv n s (v_value rv) c Hc) as [H|[H [Hst _]]];
      destruct (o_res (new_position_ia st rv n s (v_value rv))); try discriminate.
    rewrite Hst. apply inv3_set; [exact H3|]. split; [apply Hdom|intros d; cbn; lia].
  - destruct (new_ia_cases st rv n s ia c Hc) as [H|[H [Hst _]]];
      destruct (o_res (new_position_ia st rv n s ia)); try discriminate.
    rewrite Hst. apply inv3_set; [exact H3|]. split; [apply Hdom|intros d; cbn; lia].
  - unfold add_to_position in *.
    destruct (add_ia_cases st rv n s (v_value rv) c Hc) as [Hout [_ [Hpos' _]]].
    destruct Hout as [H|[[e [H _]]|[H [pos [unc [Hg [Hr [Hst _]]]]]]]];
      destruct (o_res (add_to_position_ia st rv n s (v_value rv))); try discriminate.
    rewrite Hst. apply Hchange; auto. pose proof (Hpos' H). destruct (H3 n pos Hg). lia.
  - destruct (add_ia_cases st rv n s ia c Hc) as [Hout [_ [Hpos' _]]].
    destruct Hout as [H|[[e [H _]]|[H [pos [unc [Hg [Hr [Hst _]]]]]]]];
      destruct (o_res (add_to_position_ia st rv n s ia)); try discriminate.
    rewrite Hst. apply Hchange; auto. pose proof (Hpos' H). destruct (H3 n pos Hg). lia.
  - unfold remove_from_position in *.
    destruct (remove_ia_cases st rv n s (v_value rv) c Hc) as [Hout [_ [Hpos' _]]].
    destruct Hout as [H|[[e [H _]]|[H [pos [unc [Hg [Hr [Hst _]]]]]]]];
      destruct (o_res (remove_from_position_ia st rv n s (v_value rv))); try discriminate.
    rewrite Hst. apply Hchange; auto. destruct (Hpos' H) as [_ [pos' [Hg' Hle]]]. rewrite Hg in Hg'. injection Hg' as <-. lia.
  - destruct (remove_ia_cases st rv n s ia c Hc) as [Hout [_ [Hpos' _]]].
    destruct Hout as [H|[[e [H _]]|[H [pos [unc [Hg [Hr [Hst _]]]]]]]];
      destruct (o_res (remove_from_position_ia st rv n s ia)); try discriminate.
    rewrite Hst. apply Hchange; auto. destruct (Hpos' H) as [_ [pos' [Hg' Hle]]]. rewrite Hg in Hg'. injection Hg' as <-. lia.
  - unfold update_position, update_position_ia in *.
    destruct (s =? 0); [discriminate|]. destruct (s <? 0).
    + destruct (remove_ia_cases st rv n (- s) (v_value rv) c Hc) as [Hout [_ [Hpos' _]]].
      destruct Hout as [H|[[e [H _]]|[H [pos [unc [Hg [Hr [Hst _]]]]]]]];
        destruct (o_res (remove_from_position_ia st rv n (- s) (v_value rv))); try discriminate.
      rewrite Hst. apply Hchange; auto. destruct (Hpos' H) as [_ [pos' [Hg' Hle]]]. rewrite Hg in Hg'. injection Hg' as <-. lia.
    + destruct (add_ia_cases st rv n s (v_value rv) c Hc) as [Hout [_ [Hpos' _]]].
      destruct Hout as [H|[[e [H _]]|[H [pos [unc [Hg [Hr [Hst _]]]]]]]];
        destruct (o_res (add_to_position_ia st rv n s (v_value rv))); try discriminate.
      rewrite Hst. apply Hchange; auto. pose proof (Hpos' H). destruct (H3 n pos Hg). lia.
  - unfold update_position_ia in *.
    destruct (s =? 0); [discriminate|]. destruct (s <? 0).
    + destruct (remove_ia_cases st rv n (- s) ia c Hc) as [Hout [_ [Hpos' _]]].
      destruct Hout as [H|[[e [H _]]|[H [pos [unc [Hg [Hr [Hst _]]]]]]]];
        destruct (o_res (remove_from_position_ia st rv n (- s) ia)); try discriminate.
      rewrite Hst. apply Hchange; auto. destruct (Hpos' H) as [_ [pos' [Hg' Hle]]]. rewrite Hg in Hg'. injection Hg' as <-. lia.
    + destruct (add_ia_cases st rv n s ia c Hc) as [Hout [_ [Hpos' _]]].
      destruct Hout as [H|[[e [H _]]|[H [pos [unc [Hg [Hr [Hst _]]]]]]]];
        destruct (o_res (add_to_position_ia st rv n s ia)); try discriminate.
      rewrite Hst. apply Hchange; auto. pose proof (Hpos' H). destruct (H3 n pos Hg). lia.
  - destruct (set_ia_cases st rv n ia) as [[_ [H _]]|[pos [Hg [H [Hst _]]]]]; rewrite H in Hres; [discriminate|].
    rewrite Hst. apply inv3_set; [exact H3|]. destruct (H3 n pos Hg) as [A B]. split; [exact A|exact B].
  - destruct (claim_cases st rv n) as [_ [H|[[_ [H _]]|[pos [total [tc [dust [Hg [_ [_ [H Hst]]]]]]]]]]];
      rewrite H in Hres; try discriminate.
    rewrite Hst. destruct (r_shares pos =? 0).
    + apply inv3_del; assumption.
    + apply inv3_set; [exact H3|]. destruct (H3 n pos Hg) as [A _]. split; [exact A|intros d; cbn; lia].
  - destruct (delete_cases st rv n c Hc Hps) as [H|[[_ [H _]]|[pos [total [tc [dust [dc [ret [Hg [_ [_ [_ [_ [H [Hst _]]]]]]]]]]]]]]];
      rewrite H in Hres; try discriminate.
    rewrite Hst. apply inv3_del; assumption.
  - destruct (add_unclaimed_cases st rv n c0) as [H|[[e [H _]]|[pos [u [Hg [Hneg [Hsa [H [Hst _]]]]]]]]];
      rewrite H in Hres; try discriminate.
    rewrite Hst. apply inv3_set; [exact H3|]. destruct (H3 n pos Hg) as [A B].
    destruct (Hrec n pos Hg) as [_ [R2 _]].
    destruct (safe_add_spec _ _ _ R2 Hdom Hsa) as [_ [Ha _]].
    split; [exact A|]. intros d. rewrite Ha. pose proof (B d). pose proof (any_negative_false c0 Hneg d). lia.
Qed.

Lemma hist_inv3 : forall tr st, hist tr st -> Inv3 st.
Proof.
  induction 1 as [|tr st rv o Hh IH Hdom Hrv]; [intros n r Hg; discriminate|].
  destruct (hist_inv tr st Hh) as [H1 H2].
  pose proof (step_inv1 tr st rv o H1 Hdom Hrv) as S1.
  pose proof (step_inv3 tr st rv o) as S3. unfold apply.
  destruct (o_res (step st rv o)) eqn:E; cbn [snd].
  - apply (S3 a); auto.
  - rewrite S1. exact IH.
  - exact IH.
Qed.

(* ---- a claim on a live position returns, unless a range assertion fails (or, interval API only, the reference
        point lies above the accumulator value) ---- *)
Definition claim_overflow (tr : trace) (n : Z) : Prop :=
  exists d, pending tr n d < 0 \/ d_fits (pending tr n d) = false \/
            d_fits (d_mul (pending tr n d) (shares tr n)) = false \/ d_fits (claimable tr n d) = false \/
            int_fits (Z.quot (claimable tr n d) P18) = false.

Lemma claim_returns_unless_overflow : forall tr st rv n, hist tr st -> recv_ok st rv (OClaim n) -> live tr n = true ->
  (exists tc du, o_res (step st rv (OClaim n)) = Ok (RClaim tc du)) \/ claim_overflow tr n.
Proof.
  intros tr st rv n Hh Hrv Hl.
  destruct (hist_inv tr st Hh) as [[c1 [Hc1 [Hps [Htot Hpos]]]] [c2 [Hc2 [Hval Hrec]]]].
  pose proof (hist_inv3 tr st Hh) as H3.
  destruct Hrv as [c [Hc [Hv _]]].
  rewrite Hc in Hc1, Hc2. injection Hc1 as <-. injection Hc2 as <-.
  cbn [step o_res]. unfold claim_rewards, get_position.
  pose proof (Hpos n) as Hpn.
  destruct (p_get n (a_pos st)) as [pos|] eqn:Hg; [|congruence].
  destruct Hpn as [_ Hsh].
  assert (Hval' : val_ok tr (v_value rv)) by (rewrite (Hv eq_refl); exact Hval).
  destruct (get_total_rewards rv pos) as [total|] eqn:Hr.
  - destruct (gtr_claimable tr n rv pos total Hval' (Hrec n pos Hg) Hsh Hr) as [[Ct _] Hcl].
    destruct (truncate_decimal total) as [[tc du]|] eqn:Ht; [left; cbn; eauto|].
    right. destruct (Hrec n pos Hg) as [R1 [R2 _]].
    destruct (gtr_nonneg rv pos total (proj1 Hval') R1 R2 (H3 n pos Hg) Hr) as [Hnn _].
    destruct (payout_none_ghost tr n total Ct Hcl Ht) as [d Hd]. exists d.
    destruct Hd as [Hd|[Hd|Hd]]; auto 6. pose proof (Hnn d) as K. rewrite Hcl in K. lia.
  - right. destruct (gtr_none_ghost tr n rv pos Hval' (Hrec n pos Hg) Hsh Hr) as [d Hd]. exists d.
    destruct Hd as [Hd|[Hd|[Hd|Hd]]]; auto 6.
Qed.

Lemma plain_pending_nonneg : forall tr st, hist tr st -> plain tr -> forall n d, 0 <= pending tr n d.
Proof.
  intros tr st Hh Hp n d. rewrite (pending_since tr Hp n d).
  apply since_nonneg. eapply hist_grow_nonneg; exact Hh.
Qed.

(* ---- the truncated coins of TruncateDecimal are a valid sdk.Coins value (NewDecCoinsFromCoins cannot panic) ---- *)
Definition allpos (c : coins) : Prop := Forall (fun x => 0 < snd x) c.

Lemma icoins_add1_pos : forall c x r, allpos c -> 0 < snd x -> icoins_add1 c x = Some r -> allpos r.
Proof.
  induction c as [|y c IH]; intros x r Hc Hx H; cbn [icoins_add1] in H.
  - injection H as <-. constructor; [exact Hx|constructor].
  - inversion Hc as [|? ? Hy Hc']; subst. destruct (fst x ?= fst y).
    + destruct (int_fits (snd x + snd y)); [|discriminate]. injection H as <-.
      unfold push_nz. destruct (is_zero _); [exact Hc'|]. constructor; [cbn; lia|exact Hc'].
    + injection H as <-. constructor; [exact Hx|exact Hc].
    + destruct (icoins_add1 c x) as [r0|] eqn:E0; [|discriminate]. injection H as <-.
      constructor; [exact Hy|]. apply (IH x r0 Hc' Hx E0).
Qed.

Lemma truncate_from_pos : forall c tc ch tc' ch', allpos tc ->
  truncate_decimal_from tc ch c = Some (tc', ch') -> allpos tc'.
Proof.
  induction c as [|x c IH]; intros tc ch tc' ch' Hp H; cbn [truncate_decimal_from] in H.
  - injection H as <- _. exact Hp.
  - destruct (trunc_coin x) as [[t g]|] eqn:Et; [|discriminate].
    destruct (trunc_coin_spec x t g Et) as [-> [-> Hx]].
    unfold is_zero at 1 in H. cbn [snd] in H.
    destruct (Z.quot (snd x) P18 =? 0) eqn:Eq.
    + destruct (if is_zero _ then Some ch else _) as [ch1|]; [|discriminate]. eapply IH; eauto.
    + destruct (icoins_add1 tc (fst x, Z.quot (snd x) P18)) as [tc1|] eqn:E1; [|discriminate].
      destruct (if is_zero _ then Some ch else _) as [ch1|]; [|discriminate].
      eapply IH; [|exact H]. eapply icoins_add1_pos; [exact Hp| |exact E1]. cbn [snd].
      apply Z.eqb_neq in Eq. pose proof (Z.quot_pos (snd x) P18 Hx P18_pos). lia.
Qed.

Lemma icoins_valid_iff : forall c, sorted c -> allpos c -> icoins_valid c = true.
Proof.
  induction c as [|x c IH]; intros Hs Hp; [reflexivity|].
  inversion Hp; subst. cbn [icoins_valid]. rewrite (IH (sorted_tail _ _ Hs)) by assumption.
  assert (E1 : (0 <? snd x) = true) by (apply Z.ltb_lt; assumption). rewrite E1.
  destruct c as [|y c]; [reflexivity|]. destruct Hs as [Hs _].
  assert (E2 : (fst x <? fst y) = true) by (apply Z.ltb_lt; exact Hs). rewrite E2. reflexivity.
Qed.

Lemma truncated_coins_valid : forall total tc du, sorted total -> truncate_decimal total = Some (tc, du) ->
  exists dc, dec_coins_from_coins tc = Some dc.
Proof.
  intros total tc du Hs Ht. destruct (truncate_decimal_spec total tc du Hs Ht) as [S1 _].
  assert (Hp : allpos tc) by (eapply truncate_from_pos; [constructor|exact Ht]).
  unfold dec_coins_from_coins. rewrite (icoins_valid_iff tc S1 Hp). eauto.
Qed.

(* ---- every call: why it can panic ---- *)
Definition total_of (st : astore) : Z := match a_content st with Some c => c_total c | None => 0 end.

Definition panic_reason (tr : trace) (st : astore) (o : op) : Prop :=
  match o with
  | OGrow c => exists d, d_fits (growth tr d + amt d c) = false
  | ONew n s | ONewIA n s _ => d_fits (total_of st + s) = false
  | OAdd n s | OAddIA n s _ =>
      rewards_overflow tr n \/ d_fits (shares tr n + s) = false \/ d_fits (total_of st + s) = false
  | ORemove n s | ORemoveIA n s _ =>
      rewards_overflow tr n \/ d_fits (shares tr n - s) = false \/ d_fits (total_of st - s) = false
  | OUpdate n s | OUpdateIA n s _ =>
      rewards_overflow tr n \/ d_fits (shares tr n + s) = false \/ d_fits (total_of st + s) = false
  | OSetIA _ _ => False
  | OClaim n => rewards_overflow tr n \/ payout_overflow tr n
  | ODelete n => rewards_overflow tr n \/ payout_overflow tr n \/ d_fits (total_of st - shares tr n) = false
  | OAddUnclaimed n c => exists d, d_fits (settled tr n d + amt d c) = false
  end.

Lemma refetch_panic : forall st rv f c, a_content st = Some c ->
  o_res (refetch_and_set st rv f) = Panic -> f (c_total c) = None.
Proof.
  intros st rv f c Hc H. destruct (refetch_cases st rv f c Hc) as [[_ K]|[t [_ [K _]]]]; [exact K|].
  cbv zeta in K. rewrite K in H. discriminate.
Qed.

Lemma add_ia_panic : forall tr st rv n s ia c, Inv1 tr st -> Inv2 tr st -> a_content st = Some c ->
  v_value rv = c_value c ->
  o_res (add_to_position_ia st rv n s ia) = Panic ->
  rewards_overflow tr n \/ d_fits (shares tr n + s) = false \/ d_fits (c_total c + s) = false.
Proof.
  intros tr st rv n s ia c [c1 [Hc1 [Hps [Htot Hpos]]]] [c2 [Hc2 [Hval Hrec]]] Hc Hv H.
  rewrite Hc in Hc1, Hc2. injection Hc1 as <-. injection Hc2 as <-.
  unfold add_to_position_ia, get_position in H.
  destruct (negb (0 <? s)); [discriminate|].
  pose proof (Hpos n) as Hpn.
  destruct (p_get n (a_pos st)) as [pos|] eqn:Hg; [|discriminate]. destruct Hpn as [_ Hsh].
  assert (Hval' : val_ok tr (v_value rv)) by (rewrite Hv; exact Hval).
  destruct (get_total_rewards rv pos) as [unc|] eqn:Hr.
  - destruct (dec_add (r_shares pos) s) as [ns|] eqn:Ea.
    + right; right. apply refetch_panic with (c := c) in H; [|exact Hc]. apply chk_none in H. exact H.
    + right; left. apply chk_none in Ea. rewrite <- Hsh. exact Ea.
  - left. eapply gtr_none_ghost; eauto.
Qed.

Lemma remove_ia_panic : forall tr st rv n s ia c, Inv1 tr st -> Inv2 tr st -> a_content st = Some c ->
  v_value rv = c_value c ->
  o_res (remove_from_position_ia st rv n s ia) = Panic ->
  rewards_overflow tr n \/ d_fits (shares tr n - s) = false \/ d_fits (c_total c - s) = false.
Proof.
  intros tr st rv n s ia c [c1 [Hc1 [Hps [Htot Hpos]]]] [c2 [Hc2 [Hval Hrec]]] Hc Hv H.
  rewrite Hc in Hc1, Hc2. injection Hc1 as <-. injection Hc2 as <-.
  unfold remove_from_position_ia, get_position in H.
  destruct (negb (0 <? s)); [discriminate|].
  pose proof (Hpos n) as Hpn.
  destruct (p_get n (a_pos st)) as [pos|] eqn:Hg; [|discriminate]. destruct Hpn as [_ Hsh].
  destruct (r_shares pos <? s); [discriminate|].
  assert (Hval' : val_ok tr (v_value rv)) by (rewrite Hv; exact Hval).
  destruct (get_total_rewards rv pos) as [unc|] eqn:Hr.
  - destruct (dec_sub (r_shares pos) s) as [ns|] eqn:Ea.
    + right; right. apply refetch_panic with (c := c) in H; [|exact Hc]. apply chk_none in H. exact H.
    + right; left. apply chk_none in Ea. rewrite <- Hsh. exact Ea.
  - left. eapply gtr_none_ghost; eauto.
Qed.

Lemma panic_has_reason : forall tr st rv o, hist tr st -> dom tr o -> recv_ok st rv o ->
  o_res (step st rv o) = Panic -> panic_reason tr st o.
Proof.
  intros tr st rv o Hh Hdom Hrv Hres.
  destruct (hist_inv tr st Hh) as [H1 H2].
  pose proof H1 as [c1 [Hc1 [Hps [Htot1 Hpos]]]].
  pose proof H2 as [c2 [Hc2 [Hval Hrec]]].
  destruct Hrv as [c [Hc [Hv Htot]]].
  rewrite Hc in Hc1, Hc2. injection Hc1 as <-. injection Hc2 as <-.
  assert (Ht : total_of st = c_total c) by (unfold total_of; rewrite Hc; reflexivity).
  destruct o; cbn [step lift_unit o_res panic_reason] in *; rewrite ?Ht.
  - (* OGrow *)
    unfold add_to_accumulator in Hres.
    destruct (safe_add (v_value rv) c0) as [v|] eqn:E; [discriminate|].
    rewrite (Hv eq_refl) in E. destruct Hval as [Hv1 Hv2].
    destruct (safe_add_none _ _ Hv1 (proj1 Hdom) E) as [d Hd]. exists d. rewrite <- Hv2. exact Hd.
  - unfold new_position, new_position_ia in Hres.
    destruct (o_res (refetch_and_set _ rv _)) eqn:E; try discriminate.
    apply refetch_panic with (c := c) in E; [|exact Hc]. apply chk_none in E. exact E.
  - unfold new_position_ia in Hres.
    destruct (o_res (refetch_and_set _ rv _)) eqn:E; try discriminate.
    apply refetch_panic with (c := c) in E; [|exact Hc]. apply chk_none in E. exact E.
  - unfold add_to_position in Hres.
    destruct (o_res (add_to_position_ia st rv n s (v_value rv))) eqn:E; try discriminate.
    eapply add_ia_panic; eauto.
  - destruct (o_res (add_to_position_ia st rv n s ia)) eqn:E; try discriminate.
    eapply add_ia_panic; eauto.
  - unfold remove_from_position in Hres.
    destruct (o_res (remove_from_position_ia st rv n s (v_value rv))) eqn:E; try discriminate.
    eapply remove_ia_panic; eauto.
  - destruct (o_res (remove_from_position_ia st rv n s ia)) eqn:E; try discriminate.
    eapply remove_ia_panic; eauto.
  - unfold update_position, update_position_ia in Hres.
    destruct (s =? 0); [discriminate|]. destruct (s <? 0).
    + destruct (o_res (remove_from_position_ia st rv n (- s) (v_value rv))) eqn:E; try discriminate.
      replace (shares tr n + s) with (shares tr n - - s) by lia. replace (c_total c + s) with (c_total c - - s) by lia.
      eapply remove_ia_panic; eauto.
    + destruct (o_res (add_to_position_ia st rv n s (v_value rv))) eqn:E; try discriminate.
      eapply add_ia_panic; eauto.
  - unfold update_position_ia in Hres.
    destruct (s =? 0); [discriminate|]. destruct (s <? 0).
    + destruct (o_res (remove_from_position_ia st rv n (- s) ia)) eqn:E; try discriminate.
      replace (shares tr n + s) with (shares tr n - - s) by lia. replace (c_total c + s) with (c_total c - - s) by lia.
      eapply remove_ia_panic; eauto.
    + destruct (o_res (add_to_position_ia st rv n s ia)) eqn:E; try discriminate.
      eapply add_ia_panic; eauto.
  - destruct (set_ia_cases st rv n ia) as [[_ [H _]]|[pos [_ [H _]]]]; rewrite H in Hres; discriminate.
  - apply (claim_panic_reason tr st rv n Hh).
    + exists c. auto.
    + cbn [step o_res]. destruct (o_res (claim_rewards st rv n)) as [[tc du]| |]; try discriminate. reflexivity.
  - (* ODelete *)
    destruct (o_res (delete_position st rv n)) eqn:E; try discriminate. clear Hres.
    unfold delete_position, get_position in E.
    pose proof (Hpos n) as Hpn.
    destruct (p_get n (a_pos st)) as [pos|] eqn:Hg; [|discriminate]. destruct Hpn as [_ Hsh].
    assert (Hval' : val_ok tr (v_value rv)) by (rewrite (Hv eq_refl); exact Hval).
    destruct (claim_cases st rv n) as [_ [H|[[K _]|[pos' [total [tc [dust [Hg' [Hr [Htr [H Hst]]]]]]]]]]].
    + assert (Hp : o_res (step st rv (OClaim n)) = Panic) by (cbn [step o_res]; rewrite H; reflexivity).
      assert (Hrvc : recv_ok st rv (OClaim n)).
      { exists c. split; [exact Hc|]. split; [intros _; exact (Hv eq_refl)|intros K; discriminate K]. }
      destruct (claim_panic_reason tr st rv n Hh Hrvc Hp); auto.
    + congruence.
    + rewrite H in E. rewrite Hg in Hg'. injection Hg' as <-.
      destruct (dec_sub (v_total rv) (r_shares pos)) as [t|] eqn:Ed.
      * right; left.
        destruct (gtr_claimable tr n rv pos total Hval' (Hrec n pos Hg) Hsh Hr) as [[Ct _] Hcl].
        destruct (truncated_coins_valid total tc dust Ct Htr) as [dc Hdc]. rewrite Hdc in E.
        destruct (safe_add dc dust) as [ret|] eqn:Esa; [discriminate|].
        destruct (truncate_decimal_spec total tc dust Ct Htr) as [S1 [C2 Hamt]].
        destruct (dec_coins_from_coins_spec tc dc Hdc) as [S3 Hamt3].
        destruct (safe_add_none dc dust S3 (proj1 C2) Esa) as [d Hd].
        destruct (Hamt d) as [A1 [A2 A3]]. rewrite Hamt3, A1, A2 in Hd.
        replace (Z.quot (amt d total) P18 * P18 + frac18 (amt d total)) with (amt d total) in Hd by (unfold frac18; lia).
        exists d. right; right. rewrite <- Hcl. exact Hd.
      * right; right. apply chk_none in Ed. rewrite <- (Htot eq_refl), <- Hsh. exact Ed.
  - (* OAddUnclaimed *)
    unfold add_to_unclaimed, get_position in Hres.
    destruct (p_get n (a_pos st)) as [pos|] eqn:Hg; [|discriminate].
    destruct (any_negative c0); [discriminate|].
    destruct (safe_add (r_unclaimed pos) c0) as [u|] eqn:E; [discriminate|].
    destruct (Hrec n pos Hg) as [_ [R2 [_ R4]]].
    destruct (safe_add_none _ _ R2 Hdom E) as [d Hd]. exists d. rewrite <- R4. exact Hd.
Qed.
