(* C15 key model: osmoutils/accum/prefix.go (formatAccumPrefixKey, FormatPositionPrefixKey) and the accumulator
   name check of setAccumulator (accum.go), on byte strings (list Z).  The string constants come from the
   generated Gen/C15_consts.v (props/c15.py translate(), re-read from /repo on every run).  No proofs here. *)
From Coq Require Import ZArith List Bool.
Import ListNotations.
From Osmo Require Import Gen.C15_consts.
Open Scope Z_scope.

Definition bytes := list Z.

(* accumPrefixKey / positionPrefixKey *)
Definition accum_prefix_key : bytes := module_prefix ++ key_separator ++ accumulator_prefix ++ key_separator.
Definition position_prefix_key : bytes := module_prefix ++ key_separator ++ position_prefix ++ key_separator.

(* formatAccumPrefixKey: fmt.Sprintf(accumPrefixKey+"%s", accumName) *)
Definition format_accum_prefix_key (accum_name : bytes) : bytes := accum_prefix_key ++ accum_name.
(* FormatPositionPrefixKey: fmt.Sprintf(positionPrefixKey+"%s"+KeySeparator+"%s", accumName, name) *)
Definition format_position_prefix_key (accum_name name : bytes) : bytes :=
  position_prefix_key ++ accum_name ++ key_separator ++ name.

(* strings.Contains *)
Fixpoint has_prefix (p l : bytes) : bool :=
  match p, l with
  | [], _ => true
  | _ :: _, [] => false
  | x :: p', y :: l' => (x =? y) && has_prefix p' l'
  end.
Fixpoint contains (p l : bytes) : bool :=
  has_prefix p l || match l with [] => false | _ :: l' => contains p l' end.

(* setAccumulator accepts the name iff it does not contain the separator *)
Definition accum_name_ok (accum_name : bytes) : bool := negb (contains key_separator accum_name).
