(* C15: second invariant over histories - the accumulator value is the total growth, and every record holds
   the ghost snapshot and the rewards settled so far (closed intervals + explicitly added), per denomination.
   Consequence: GetTotalRewards computes exactly [claimable]. *)
From Coq Require Import ZArith List Bool Lia.
Import ListNotations.
From Osmo Require Import Base.DecModel C15.Model C15.Spec C15.ProofsMap C15.ProofsStep C15.ProofsInv1 C15.ProofsCoins.
Open Scope Z_scope.

Definition settled (tr : trace) (n d : Z) : Z := sum_dmul (ivals tr n d) + added tr n d.

Definition rec_ok (tr : trace) (n : Z) (r : record) : Prop :=
  sorted (r_snap r) /\ sorted (r_unclaimed r) /\
  (forall d, amt d (r_snap r) = snapg tr n d) /\
  (forall d, amt d (r_unclaimed r) = settled tr n d).
Definition val_ok (tr : trace) (v : coins) : Prop := sorted v /\ forall d, amt d v = growth tr d.

Definition Inv2 (tr : trace) (st : astore) : Prop :=
  exists c, a_content st = Some c /\ val_ok tr (c_value c) /\
            forall n r, p_get n (a_pos st) = Some r -> rec_ok tr n r.

Definition same_for (tr tr' : trace) (m : Z) : Prop :=
  forall d, snapg tr' m d = snapg tr m d /\ ivals tr' m d = ivals tr m d /\ added tr' m d = added tr m d.

Lemma rec_ok_same : forall tr tr' m r, same_for tr tr' m -> rec_ok tr m r -> rec_ok tr' m r.
Proof.
  intros tr tr' m r Hs [H1 [H2 [H3 H4]]]. repeat split; auto.
  - intros d. destruct (Hs d) as [E _]. rewrite E. apply H3.
  - intros d. destruct (Hs d) as [_ [E1 E2]]. unfold settled. rewrite E1, E2. apply H4.
Qed.

Lemma inv2_set : forall tr tr' st v t n r',
  Inv2 tr st -> val_ok tr' v -> rec_ok tr' n r' -> (forall m, m <> n -> same_for tr tr' m) ->
  Inv2 tr' (mkA (Some (mkC v t)) (p_set n r' (a_pos st))).
Proof.
  intros tr tr' st v t n r' [c [Hc [Hv Hr]]] Hv' Hr' Hoth.
  exists (mkC v t). cbn [a_content a_pos c_value]. split; [reflexivity|]. split; [exact Hv'|].
  intros m r Hg. destruct (Z.eq_dec m n) as [->|Hne].
  - rewrite p_get_p_set_same in Hg. injection Hg as <-. exact Hr'.
  - rewrite p_get_p_set_other in Hg by exact Hne. eapply rec_ok_same; [apply Hoth; exact Hne|apply Hr; exact Hg].
Qed.

Lemma inv2_del : forall tr tr' st v t n, psorted (a_pos st) ->
  Inv2 tr st -> val_ok tr' v -> (forall m, m <> n -> same_for tr tr' m) ->
  Inv2 tr' (mkA (Some (mkC v t)) (p_del n (a_pos st))).
Proof.
  intros tr tr' st v t n Hs [c [Hc [Hv Hr]]] Hv' Hoth.
  exists (mkC v t). cbn [a_content a_pos c_value]. split; [reflexivity|]. split; [exact Hv'|].
  intros m r Hg. destruct (Z.eq_dec m n) as [->|Hne].
  - rewrite p_get_p_del_same in Hg by exact Hs. discriminate.
  - rewrite p_get_p_del_other in Hg by exact Hne. eapply rec_ok_same; [apply Hoth; exact Hne|apply Hr; exact Hg].
Qed.

(* a call about name n says nothing about any other name *)
Lemma other_name : forall o n m, name_of o = Some n -> m <> n ->
  creates o m = None /\ delta_of o m = None /\ claims o m = false /\ resnaps o m = None /\
  (forall d, adds_unclaimed o m d = 0) /\ (forall d, grows o d = 0).
Proof.
  intros o n m Hn Hne. destruct o; cbn in Hn; try discriminate; injection Hn as ->; cbn;
    rewrite (eqb_neq_false _ _ (not_eq_sym Hne)); repeat split; reflexivity.
Qed.

Lemma same_for_other : forall o x tr n m, name_of o = Some n -> m <> n -> same_for tr ((o, Ok x) :: tr) m.
Proof.
  intros o x tr n m Hn Hne d. destruct (other_name o n m Hn Hne) as [H1 [H2 [H3 [H4 [H5 H6]]]]].
  cbn [snapg ivals added]. rewrite H1, H2, H3, H4, H5. repeat split; reflexivity.
Qed.

Lemma growth_other : forall o x tr n, name_of o = Some n -> forall d, growth ((o, Ok x) :: tr) d = growth tr d.
Proof.
  intros o x tr n Hn d. cbn [growth]. destruct o; cbn in Hn; try discriminate; cbn; lia.
Qed.

Lemma val_ok_other : forall o x tr n v, name_of o = Some n -> val_ok tr v -> val_ok ((o, Ok x) :: tr) v.
Proof. intros o x tr n v Hn [H1 H2]. split; [exact H1|]. intros d. rewrite (growth_other o x tr n Hn). apply H2. Qed.

(* ---- GetTotalRewards = claimable ---- *)
Lemma gtr_spec : forall rv pos total, sorted (v_value rv) -> sorted (r_snap pos) -> sorted (r_unclaimed pos) ->
  get_total_rewards rv pos = Some total ->
  canon total /\
  forall d, amt d total = amt d (r_unclaimed pos) + d_mul (amt d (v_value rv) - amt d (r_snap pos)) (r_shares pos).
Proof.
  intros rv pos total Hv Hs Hu H. unfold get_total_rewards in H.
  destruct (coins_sub (v_value rv) (r_snap pos)) as [diff|] eqn:E1; [|discriminate].
  destruct (mul_dec diff (r_shares pos)) as [ar|] eqn:E2; [|discriminate].
  destruct (coins_sub_spec _ _ _ Hv Hs E1) as [[D1 D2] [Hd _]].
  destruct (mul_dec_spec _ _ _ D1 E2) as [[M1 M2] Hm].
  destruct (safe_add_spec _ _ _ Hu M1 H) as [C [Ha _]].
  split; [exact C|]. intros d. rewrite Ha, Hm, Hd. reflexivity.
Qed.

Lemma gtr_claimable : forall tr n rv pos total,
  val_ok tr (v_value rv) -> rec_ok tr n pos -> r_shares pos = shares tr n ->
  get_total_rewards rv pos = Some total ->
  canon total /\ forall d, amt d total = claimable tr n d.
Proof.
  intros tr n rv pos total [Hv1 Hv2] [Hs [Hu [Hsn Hun]]] Hsh H.
  destruct (gtr_spec rv pos total Hv1 Hs Hu H) as [C Ha]. split; [exact C|].
  intros d. rewrite Ha, Hun, Hv2, Hsn, Hsh. unfold claimable, intervals, settled, pending. cbn [sum_dmul fold_right fst snd].
  unfold sum_dmul. lia.
Qed.

(* the record written by a share change *)
Lemma rec_ok_change : forall tr o x n dl sn total pos,
  creates o n = None -> claims o n = false -> delta_of o n = Some dl ->
  (forall d, adds_unclaimed o n d = 0) ->
  sorted sn -> (forall d, amt d sn = snapg ((o, Ok x) :: tr) n d) ->
  canon total -> (forall d, amt d total = claimable tr n d) ->
  rec_ok ((o, Ok x) :: tr) n (mkR (r_shares pos + dl) sn total).
Proof.
  intros tr o x n dl sn total pos Hcr Hcl Hdl Hau Hsn Hsnap [Ht _] Hcl'.
  repeat split; cbn [r_snap r_unclaimed]; auto.
  intros d. rewrite Hcl'. unfold settled, claimable, intervals. cbn [ivals added]. rewrite Hcr, Hcl, Hdl, Hau. lia.
Qed.

Lemma inv2_same_pos : forall tr tr' st v t,
  Inv2 tr st -> val_ok tr' v -> (forall m, same_for tr tr' m) ->
  Inv2 tr' (mkA (Some (mkC v t)) (a_pos st)).
Proof.
  intros tr tr' st v t [c [Hc [Hv Hr]]] Hv' Hoth.
  exists (mkC v t). cbn [a_content a_pos c_value]. split; [reflexivity|]. split; [exact Hv'|].
  intros m r Hg. eapply rec_ok_same; [apply Hoth|apply Hr; exact Hg].
Qed.

(* the family of share-changing calls on n: signed change dl, new snapshot sn *)
Definition change_op (o : op) (n dl : Z) (rv : recv) (sn : coins) : Prop :=
  name_of o = Some n /\ creates o n = None /\ claims o n = false /\ delta_of o n = Some dl /\
  (forall d, adds_unclaimed o n d = 0) /\
  (resnaps o n = Some None /\ sn = v_value rv \/ resnaps o n = Some (Some sn)).

Lemma change_op_add : forall n s rv, change_op (OAdd n s) n s rv (v_value rv).
Proof. intros. unfold change_op. cbn. rewrite Z.eqb_refl. repeat split; auto. Qed.
Lemma change_op_add_ia : forall n s ia rv, change_op (OAddIA n s ia) n s rv ia.
Proof. intros. unfold change_op. cbn. rewrite Z.eqb_refl. repeat split; auto. Qed.
Lemma change_op_remove : forall n s rv, change_op (ORemove n s) n (- s) rv (v_value rv).
Proof. intros. unfold change_op. cbn. rewrite Z.eqb_refl. repeat split; auto. Qed.
Lemma change_op_remove_ia : forall n s ia rv, change_op (ORemoveIA n s ia) n (- s) rv ia.
Proof. intros. unfold change_op. cbn. rewrite Z.eqb_refl. repeat split; auto. Qed.
Lemma change_op_update : forall n s rv, change_op (OUpdate n s) n s rv (v_value rv).
Proof. intros. unfold change_op. cbn. rewrite Z.eqb_refl. repeat split; auto. Qed.
Lemma change_op_update_ia : forall n s ia rv, change_op (OUpdateIA n s ia) n s rv ia.
Proof. intros. unfold change_op. cbn. rewrite Z.eqb_refl. repeat split; auto. Qed.

Lemma inv2_change : forall tr st rv c o x n dl sn pos unc t,
  Inv1 tr st -> Inv2 tr st -> a_content st = Some c -> v_value rv = c_value c ->
  change_op o n dl rv sn -> sorted sn ->
  p_get n (a_pos st) = Some pos -> get_total_rewards rv pos = Some unc ->
  Inv2 ((o, Ok x) :: tr) (mkA (Some (mkC (v_value rv) t)) (p_set n (mkR (r_shares pos + dl) sn unc) (a_pos st))).
Proof.
  intros tr st rv c o x n dl sn pos unc t [c1 [Hc1 [Hps [Htot Hpos]]]] H2 Hc Hv [Hn [Hcr [Hcl [Hdl [Hau Hsn]]]]] Hss Hg Hr.
  pose proof H2 as [c2 [Hc2 [Hval Hrec]]]. rewrite Hc in Hc2. injection Hc2 as <-.
  assert (Hval' : val_ok tr (v_value rv)) by (rewrite Hv; exact Hval).
  pose proof (Hpos n) as Hpn. rewrite Hg in Hpn. destruct Hpn as [_ Hsh].
  destruct (gtr_claimable tr n rv pos unc Hval' (Hrec n pos Hg) Hsh Hr) as [Cu Hu].
  apply inv2_set with (tr := tr); auto.
  - eapply val_ok_other; eauto.
  - apply rec_ok_change; auto.
    intros d. cbn [snapg]. destruct Hsn as [[Hs1 ->]|Hs1]; rewrite Hs1; [apply Hval'|reflexivity].
  - intros m Hne. eapply same_for_other; eauto.
Qed.

Lemma step_inv2 : forall tr st rv o x, Inv1 tr st -> Inv2 tr st -> dom tr o -> recv_ok st rv o ->
  o_res (step st rv o) = Ok x -> Inv2 ((o, Ok x) :: tr) (o_st (step st rv o)).
Proof.
  intros tr st rv o x H1 H2 Hdom [c [Hc [Hv Htot]]] Hres.
  pose proof H1 as [c1 [Hc1 [Hps [Htot1 Hpos]]]]. rewrite Hc in Hc1. injection Hc1 as <-.
  pose proof H2 as [c2 [Hc2 [Hval Hrec]]]. rewrite Hc in Hc2. injection Hc2 as <-.
  destruct o; cbn [step lift_unit o_res o_st] in *.
  - (* OGrow *)
    destruct (grow_cases st rv c0) as [H|[v [Hsa [H [Hst _]]]]]; rewrite H in Hres; [discriminate|].
    rewrite Hst. destruct Hdom as [Hd1 Hd2]. destruct Hval as [Hv1 Hv2].
    rewrite (Hv eq_refl) in Hsa.
    destruct (safe_add_spec _ _ _ Hv1 Hd1 Hsa) as [[S1 _] [Ha _]].
    apply inv2_same_pos with (tr := tr); auto.
    + split; [exact S1|]. intros d. rewrite Ha, Hv2. cbn [growth grows]. lia.
    + intros m d. cbn [snapg ivals added creates claims delta_of resnaps adds_unclaimed]. repeat split; lia.
  - (* ONew *)
    unfold new_position in *.
    destruct (new_ia_cases st rv n s (v_value rv) c Hc) as [H|[H [Hst _]]];
      destruct (o_res (new_position_ia st rv n s (v_value rv))); try discriminate.
    rewrite Hst. apply inv2_set with (tr := tr); [exact H2| | |].
    + eapply val_ok_other; [reflexivity|]. rewrite (Hv eq_refl). exact Hval.
    + rewrite (Hv eq_refl). destruct Hval as [Hv1 Hv2]. unfold rec_ok. cbn [r_snap r_unclaimed].
      split; [exact Hv1|]. split; [exact I|]. split.
      * intros d. cbn [snapg resnaps]. rewrite Z.eqb_refl. apply Hv2.
      * intros d. unfold settled. cbn [ivals added creates]. rewrite Z.eqb_refl. reflexivity.
    + intros m Hne. eapply same_for_other; [reflexivity|exact Hne].
  - (* ONewIA *)
    destruct (new_ia_cases st rv n s ia c Hc) as [H|[H [Hst _]]];
      destruct (o_res (new_position_ia st rv n s ia)); try discriminate.
    rewrite Hst. destruct Hdom as [_ [_ Hia]]. apply inv2_set with (tr := tr); [exact H2| | |].
    + eapply val_ok_other; [reflexivity|]. rewrite (Hv eq_refl). exact Hval.
    + unfold rec_ok. cbn [r_snap r_unclaimed]. split; [exact Hia|]. split; [exact I|]. split.
      * intros d. cbn [snapg resnaps]. rewrite Z.eqb_refl. reflexivity.
      * intros d. unfold settled. cbn [ivals added creates]. rewrite Z.eqb_refl. reflexivity.
    + intros m Hne. eapply same_for_other; [reflexivity|exact Hne].
  - (* OAdd *)
    unfold add_to_position in *.
    destruct (add_ia_cases st rv n s (v_value rv) c Hc) as [Hout _].
    destruct Hout as [H|[[e [H _]]|[H [pos [unc [Hg [Hr [Hst _]]]]]]]];
      destruct (o_res (add_to_position_ia st rv n s (v_value rv))); try discriminate.
    rewrite Hst. eapply inv2_change; eauto using change_op_add.
    rewrite (Hv eq_refl). apply Hval.
  - (* OAddIA *)
    destruct (add_ia_cases st rv n s ia c Hc) as [Hout _].
    destruct Hout as [H|[[e [H _]]|[H [pos [unc [Hg [Hr [Hst _]]]]]]]];
      destruct (o_res (add_to_position_ia st rv n s ia)); try discriminate.
    rewrite Hst. eapply inv2_change; eauto using change_op_add_ia.
  - (* ORemove *)
    unfold remove_from_position in *.
    destruct (remove_ia_cases st rv n s (v_value rv) c Hc) as [Hout _].
    destruct Hout as [H|[[e [H _]]|[H [pos [unc [Hg [Hr [Hst _]]]]]]]];
      destruct (o_res (remove_from_position_ia st rv n s (v_value rv))); try discriminate.
    rewrite Hst. eapply inv2_change; eauto using change_op_remove.
    rewrite (Hv eq_refl). apply Hval.
  - (* ORemoveIA *)
    destruct (remove_ia_cases st rv n s ia c Hc) as [Hout _].
    destruct Hout as [H|[[e [H _]]|[H [pos [unc [Hg [Hr [Hst _]]]]]]]];
      destruct (o_res (remove_from_position_ia st rv n s ia)); try discriminate.
    rewrite Hst. eapply inv2_change; eauto using change_op_remove_ia.
  - (* OUpdate *)
    unfold update_position, update_position_ia in *.
    destruct (s =? 0); [discriminate|]. destruct (s <? 0).
    + destruct (remove_ia_cases st rv n (- s) (v_value rv) c Hc) as [Hout _].
      destruct Hout as [H|[[e [H _]]|[H [pos [unc [Hg [Hr [Hst _]]]]]]]];
        destruct (o_res (remove_from_position_ia st rv n (- s) (v_value rv))); try discriminate.
      rewrite Hst. replace (- - s) with s by lia. eapply inv2_change; eauto using change_op_update.
      rewrite (Hv eq_refl). apply Hval.
    + destruct (add_ia_cases st rv n s (v_value rv) c Hc) as [Hout _].
      destruct Hout as [H|[[e [H _]]|[H [pos [unc [Hg [Hr [Hst _]]]]]]]];
        destruct (o_res (add_to_position_ia st rv n s (v_value rv))); try discriminate.
      rewrite Hst. eapply inv2_change; eauto using change_op_update.
      rewrite (Hv eq_refl). apply Hval.
  - (* OUpdateIA *)
    unfold update_position_ia in *.
    destruct (s =? 0); [discriminate|]. destruct (s <? 0).
    + destruct (remove_ia_cases st rv n (- s) ia c Hc) as [Hout _].
      destruct Hout as [H|[[e [H _]]|[H [pos [unc [Hg [Hr [Hst _]]]]]]]];
        destruct (o_res (remove_from_position_ia st rv n (- s) ia)); try discriminate.
      rewrite Hst. replace (- - s) with s by lia. eapply inv2_change; eauto using change_op_update_ia.
    + destruct (add_ia_cases st rv n s ia c Hc) as [Hout _].
      destruct Hout as [H|[[e [H _]]|[H [pos [unc [Hg [Hr [Hst _]]]]]]]];
        destruct (o_res (add_to_position_ia st rv n s ia)); try discriminate.
      rewrite Hst. eapply inv2_change; eauto using change_op_update_ia.
  - (* OSetIA *)
    destruct (set_ia_cases st rv n ia) as [[_ [H _]]|[pos [Hg [H [Hst _]]]]]; rewrite H in Hres; [discriminate|].
    rewrite Hst, Hc. destruct c as [cv ct]. apply inv2_set with (tr := tr); [exact H2| | |].
    + eapply val_ok_other; [reflexivity|]. exact Hval.
    + destruct (Hrec n pos Hg) as [R1 [R2 [R3 R4]]]. unfold rec_ok. cbn [r_snap r_unclaimed].
      split; [exact Hdom|]. split; [exact R2|]. split.
      * intros d. cbn [snapg resnaps]. rewrite Z.eqb_refl. reflexivity.
      * intros d. rewrite R4. unfold settled. cbn [ivals added creates claims delta_of adds_unclaimed]. lia.
    + intros m Hne. eapply same_for_other; [reflexivity|exact Hne].
  - (* OClaim *)
    destruct (claim_cases st rv n) as [_ [H|[[_ [H _]]|[pos [total [tc [dust [Hg [_ [_ [H Hst]]]]]]]]]]];
      rewrite H in Hres; try discriminate.
    rewrite Hst, Hc. destruct c as [cv ct]. cbn [c_value] in *.
    assert (Hval' : val_ok ((OClaim n, Ok x) :: tr) cv) by (eapply val_ok_other; [reflexivity|exact Hval]).
    destruct (r_shares pos =? 0).
    + apply inv2_del with (tr := tr); [exact Hps|exact H2|exact Hval'|].
      intros m Hne. eapply same_for_other; [reflexivity|exact Hne].
    + apply inv2_set with (tr := tr); [exact H2|exact Hval'| |].
      * rewrite (Hv eq_refl). destruct Hval as [Hv1 Hv2]. unfold rec_ok. cbn [r_snap r_unclaimed].
        split; [exact Hv1|]. split; [exact I|]. split.
        -- intros d. cbn [snapg resnaps]. rewrite Z.eqb_refl. apply Hv2.
        -- intros d. unfold settled. cbn [ivals added creates claims]. rewrite Z.eqb_refl. reflexivity.
      * intros m Hne. eapply same_for_other; [reflexivity|exact Hne].
  - (* ODelete *)
    destruct (delete_cases st rv n c Hc Hps) as [H|[[_ [H _]]|[pos [total [tc [dust [dc [ret [Hg [_ [_ [_ [_ [H [Hst _]]]]]]]]]]]]]]];
      rewrite H in Hres; try discriminate.
    rewrite Hst. apply inv2_del with (tr := tr); [exact Hps|exact H2| |].
    + eapply val_ok_other; [reflexivity|]. rewrite (Hv eq_refl). exact Hval.
    + intros m Hne. eapply same_for_other; [reflexivity|exact Hne].
  - (* OAddUnclaimed *)
    destruct (add_unclaimed_cases st rv n c0) as [H|[[e [H _]]|[pos [u [Hg [_ [Hsa [H [Hst _]]]]]]]]];
      rewrite H in Hres; try discriminate.
    rewrite Hst, Hc. destruct c as [cv ct]. apply inv2_set with (tr := tr); [exact H2| | |].
    + eapply val_ok_other; [reflexivity|]. exact Hval.
    + destruct (Hrec n pos Hg) as [R1 [R2 [R3 R4]]].
      destruct (safe_add_spec _ _ _ R2 Hdom Hsa) as [[S1 _] [Ha _]].
      unfold rec_ok. cbn [r_snap r_unclaimed]. split; [exact R1|]. split; [exact S1|]. split.
      * intros d. cbn [snapg resnaps]. apply R3.
      * intros d. rewrite Ha, R4. unfold settled. cbn [ivals added creates claims delta_of adds_unclaimed].
        rewrite Z.eqb_refl. lia.
    + intros m Hne. eapply same_for_other; [reflexivity|exact Hne].
Qed.

Definition Inv (tr : trace) (st : astore) : Prop := Inv1 tr st /\ Inv2 tr st.

Lemma inv2_skip : forall o (x : res ret) tr st, (forall r, x <> Ok r) -> Inv2 tr st -> Inv2 ((o, x) :: tr) st.
Proof.
  intros o x tr st Hx [c [Hc [[Hv1 Hv2] Hr]]]. exists c. split; [exact Hc|].
  destruct x as [r| |]; [exfalso; eapply Hx; reflexivity| |]; (split; [split; [exact Hv1|exact Hv2]|exact Hr]).
Qed.
Lemma inv1_skip : forall o (x : res ret) tr st, (forall r, x <> Ok r) -> Inv1 tr st -> Inv1 ((o, x) :: tr) st.
Proof.
  intros o x tr st Hx [c [Hc [Hs [Ht Hp]]]]. exists c. repeat split; auto.
  destruct x as [r| |]; [exfalso; eapply Hx; reflexivity| |]; exact Hp.
Qed.

Lemma hist_inv : forall tr st, hist tr st -> Inv tr st.
Proof.
  induction 1 as [|tr st rv o Hh [IH1 IH2] Hdom Hrv].
  - split; [apply hist_inv1; constructor|].
    exists (mkC [] 0). split; [reflexivity|]. split; [split; [exact I|reflexivity]|]. intros n r Hg. discriminate.
  - pose proof (step_inv1 tr st rv o IH1 Hdom Hrv) as S1.
    pose proof (step_inv2 tr st rv o) as S2. unfold apply.
    destruct (o_res (step st rv o)) eqn:E; cbn [fst snd].
    + split; [exact S1|]. apply S2; auto.
    + rewrite S1. split; [apply inv1_skip|apply inv2_skip]; auto; discriminate.
    + split; [apply inv1_skip|apply inv2_skip]; auto; discriminate.
Qed.
