// c16drv runs the real osmoutils/sumtree (from /repo) on operation histories read from stdin (one JSON
// case per line) and prints one JSON observation per case.
//
// Store stack: the one the repo's own sumtree tests use (IAVL mutable tree over MemDB through
// osmoutils/wrapper, iavlstore.UnsafeNewStore).  Every call into the tree runs in its own goroutine under a
// watchdog; panics are recovered and reported as a small enum.
//
// Observation = flat list of integers (decimal strings, values are unbounded sdk Ints):
//
//	block(initial state after NewTree) ; for every op: status ; if status==0 block(state after op) else stop
//	(no block after the first `quiet` ops of a case: long insertion prefixes for large fan-outs)
//
// block = gets | splits | subsets | prefix sums | total | forward iteration | reverse iteration | ranged
// iterations | raw store dump (decoded with the exported Node / Leaf types).  See props/c16.py (parse_block)
// for the exact layout; coq/theories/C16/Corr.v produces the same layout from the model.
package main

import (
	"bufio"
	"bytes"
	"encoding/binary"
	"encoding/hex"
	"encoding/json"
	"fmt"
	"os"
	"strings"
	"time"

	"cosmossdk.io/log"
	iavlstore "cosmossdk.io/store/iavl"
	storetypes "cosmossdk.io/store/types"
	dbm "github.com/cosmos/cosmos-db"
	"github.com/cosmos/gogoproto/proto"
	"github.com/cosmos/iavl"

	"github.com/osmosis-labs/osmosis/osmomath"
	"github.com/osmosis-labs/osmosis/osmoutils/sumtree"
	"github.com/osmosis-labs/osmosis/osmoutils/wrapper"
)

type opT struct {
	Op string  `json:"op"` // set | inc | dec | rm
	K  *string `json:"k"`  // hex; null = nil slice (as opposed to the empty, non-nil slice "")
	V  string  `json:"v"`  // decimal
}

type tcase struct {
	M        int         `json:"m"`
	Universe []string    `json:"universe"` // hex keys: Get is asked for each after every op
	Q        []string    `json:"q"`        // hex keys: split / subset / prefix queries for all (pairs of) these
	Ranges   [][2]string `json:"ranges"`   // hex pairs: ranged forward + reverse iteration [begin, end)
	Ops      []opT       `json:"ops"`
	Quiet    int         `json:"quiet"` // the first Quiet ops are applied and their status reported, but no block is observed after them
}

type obs struct {
	Flat    []string `json:"flat"`
	RawKeys []string `json:"rawkeys"` // hex raw store keys of the final dump, in store order
	Panics  []string `json:"panics,omitempty"`
	Err     string   `json:"err,omitempty"`
}

// panic enum (shared with Model.v / c16.py)
const (
	stOK        = 0
	stIndex     = 1 // runtime error: index out of range / slice bounds
	stNilDeref  = 2 // runtime error: nil pointer dereference
	stPushMiss  = 3 // "non existing key pushed from the child"
	stPullMiss  = 4 // "pulling non existing child"
	stOther     = 5
	stWatchdog  = 6
	watchdogDur = 20 * time.Second
)

func classify(r interface{}) int {
	s := fmt.Sprint(r)
	switch {
	case strings.Contains(s, "index out of range"), strings.Contains(s, "slice bounds out of range"):
		return stIndex
	case strings.Contains(s, "nil pointer dereference"):
		return stNilDeref
	case strings.Contains(s, "non existing key pushed from the child"):
		return stPushMiss
	case strings.Contains(s, "pulling non existing child"):
		return stPullMiss
	}
	return stOther
}

type runner struct {
	o    *obs
	dead bool // a call hit the watchdog: its goroutine may still hold the store, make no further calls
}

// guarded runs f under the watchdog, recovering panics
func (r *runner) guarded(f func()) int {
	if r.dead {
		return stWatchdog
	}
	done := make(chan int, 1)
	go func() {
		defer func() {
			if p := recover(); p != nil {
				st := classify(p)
				if len(r.o.Panics) < 8 {
					r.o.Panics = append(r.o.Panics, fmt.Sprint(p))
				}
				done <- st
			}
		}()
		f()
		done <- stOK
	}()
	select {
	case st := <-done:
		return st
	case <-time.After(watchdogDur):
		r.dead = true
		r.o.Err = "watchdog"
		return stWatchdog
	}
}

func (r *runner) put(xs ...string) { r.o.Flat = append(r.o.Flat, xs...) }
func (r *runner) puti(x int)       { r.o.Flat = append(r.o.Flat, fmt.Sprint(x)) }
func (r *runner) putkey(k []byte) {
	r.puti(len(k))
	for _, b := range k {
		r.puti(int(b))
	}
}

func unhex(s string) []byte {
	b, err := hex.DecodeString(s)
	if err != nil {
		panic(err)
	}
	if b == nil {
		b = []byte{}
	}
	return b
}

func (r *runner) iterate(t sumtree.Tree, begin, end []byte, reverse bool) {
	var keys [][]byte
	var vals []string
	st := r.guarded(func() {
		var it storetypes.Iterator
		if reverse {
			it = t.ReverseIterator(begin, end)
		} else {
			it = t.Iterator(begin, end)
		}
		defer it.Close()
		for ; it.Valid(); it.Next() {
			k := it.Key()
			if len(k) < 7 {
				panic("short key from iterator")
			}
			var leaf sumtree.Leaf
			if err := proto.Unmarshal(it.Value(), &leaf); err != nil {
				panic(err)
			}
			keys = append(keys, append([]byte{}, k[7:]...))
			if leaf.Leaf == nil {
				vals = append(vals, "0")
			} else {
				vals = append(vals, leaf.Leaf.Accumulation.String())
			}
		}
	})
	r.puti(st)
	if st != stOK {
		return
	}
	r.puti(len(keys))
	for i := range keys {
		r.putkey(keys[i])
		r.put(vals[i])
	}
}

func (r *runner) dump(kv storetypes.KVStore) {
	type ent struct {
		level int
		key   []byte
		ch    [][]byte
		acc   []string
	}
	var ents []ent
	var raws []string
	st := r.guarded(func() {
		it := kv.Iterator(nil, nil)
		defer it.Close()
		for ; it.Valid(); it.Next() {
			k := it.Key()
			raws = append(raws, hex.EncodeToString(k))
			if len(k) < 7 || !bytes.Equal(k[:5], []byte("node/")) {
				panic("store key without the node/ prefix: " + hex.EncodeToString(k))
			}
			e := ent{level: int(binary.BigEndian.Uint16(k[5:7])), key: append([]byte{}, k[7:]...)}
			if e.level == 0 {
				var leaf sumtree.Leaf
				if err := proto.Unmarshal(it.Value(), &leaf); err != nil {
					panic(err)
				}
				if leaf.Leaf != nil {
					e.ch = append(e.ch, leaf.Leaf.Index)
					e.acc = append(e.acc, leaf.Leaf.Accumulation.String())
				}
			} else {
				var node sumtree.Node
				if err := proto.Unmarshal(it.Value(), &node); err != nil {
					panic(err)
				}
				for _, c := range node.Children {
					e.ch = append(e.ch, c.Index)
					e.acc = append(e.acc, c.Accumulation.String())
				}
			}
			ents = append(ents, e)
		}
	})
	r.o.RawKeys = raws
	r.puti(st)
	if st != stOK {
		return
	}
	r.puti(len(ents))
	for _, e := range ents {
		r.puti(e.level)
		r.putkey(e.key)
		r.puti(len(e.ch))
		for i := range e.ch {
			r.putkey(e.ch[i])
			r.put(e.acc[i])
		}
	}
}

func (r *runner) block(t sumtree.Tree, kv storetypes.KVStore, c *tcase, uni, q [][]byte) {
	for _, k := range uni {
		var v osmomath.Int
		st := r.guarded(func() { v = t.Get(k) })
		r.puti(st)
		if st == stOK {
			r.put(v.String())
		} else {
			r.put("0")
		}
	}
	for _, k := range q {
		var a, b, d osmomath.Int
		st := r.guarded(func() { a, b, d = t.SplitAcc(k) })
		r.puti(st)
		if st == stOK {
			r.put(a.String(), b.String(), d.String())
		} else {
			r.put("0", "0", "0")
		}
	}
	ends := append([][]byte{nil}, q...)
	for _, s := range ends {
		for _, e := range ends {
			var v osmomath.Int
			st := r.guarded(func() { v = t.SubsetAccumulation(s, e) })
			r.puti(st)
			if st == stOK {
				r.put(v.String())
			} else {
				r.put("0")
			}
		}
	}
	for _, e := range ends {
		var v osmomath.Int
		st := r.guarded(func() { v = t.PrefixSum(e) })
		r.puti(st)
		if st == stOK {
			r.put(v.String())
		} else {
			r.put("0")
		}
	}
	{
		var v osmomath.Int
		st := r.guarded(func() { v = t.TotalAccumulatedValue() })
		r.puti(st)
		if st == stOK {
			r.put(v.String())
		} else {
			r.put("0")
		}
	}
	r.iterate(t, nil, nil, false)
	r.iterate(t, nil, nil, true)
	for _, rg := range c.Ranges {
		b, e := unhex(rg[0]), unhex(rg[1])
		r.iterate(t, b, e, false)
		r.iterate(t, b, e, true)
	}
	r.dump(kv)
}

func runCase(c *tcase) (o obs) {
	r := &runner{o: &o}
	if c.M < 0 || c.M > 255 {
		o.Err = "m out of uint8 range"
		return
	}
	db := wrapper.NewIAVLDB(dbm.NewMemDB())
	itree := iavl.NewMutableTree(db, 100, false, log.NewNopLogger())
	if _, _, err := itree.SaveVersion(); err != nil {
		o.Err = err.Error()
		return
	}
	kv := iavlstore.UnsafeNewStore(itree)
	var uni, q [][]byte
	for _, s := range c.Universe {
		uni = append(uni, unhex(s))
	}
	for _, s := range c.Q {
		q = append(q, unhex(s))
	}
	var t sumtree.Tree
	st := r.guarded(func() { t = sumtree.NewTree(kv, uint8(c.M)) })
	r.puti(st)
	if st != stOK {
		return
	}
	r.block(t, kv, c, uni, q)
	for i, op := range c.Ops {
		var key []byte
		if op.K != nil {
			key = unhex(*op.K)
		}
		var v osmomath.Int
		if op.Op != "rm" {
			var ok bool
			v, ok = osmomath.NewIntFromString(op.V)
			if !ok {
				o.Err = "bad value " + op.V
				return
			}
		}
		st := r.guarded(func() {
			switch op.Op {
			case "set":
				t.Set(key, v)
			case "inc":
				t.Increase(key, v)
			case "dec":
				t.Decrease(key, v)
			case "rm":
				t.Remove(key)
			default:
				panic("unknown op " + op.Op)
			}
		})
		r.puti(st)
		if st != stOK {
			return // the history ends at the first panicking mutation
		}
		if i >= c.Quiet {
			r.block(t, kv, c, uni, q)
		}
	}
	return
}

func main() {
	in := bufio.NewReaderSize(os.Stdin, 1<<20)
	out := bufio.NewWriterSize(os.Stdout, 1<<20)
	defer out.Flush()
	dec := json.NewDecoder(in)
	for dec.More() {
		var c tcase
		if err := dec.Decode(&c); err != nil {
			fmt.Fprintln(os.Stderr, "bad case:", err)
			os.Exit(2)
		}
		o := runCase(&c)
		b, _ := json.Marshal(o)
		out.Write(b)
		out.WriteByte('\n')
	}
}
