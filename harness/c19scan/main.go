// c19scan: inventory of the map-iteration sites of /repo's consensus code.
//
// Every `for ... := range X` whose X has a map type (decided by go/types; dependencies are read from the export
// data that `go list -export` produces, so nothing is type-checked twice) in non-test, non-generated code under
// /repo/x and /repo/app is reported with
//   * an identifier that does not depend on line numbers: file, enclosing function, sha256 of the normalised source
//     of the loop (and of the sort statement that follows it, if any; for escaping sites: of the whole function);
//   * a syntactic effect class of the loop:
//       pure            the body only writes maps / variables declared inside the loop, calls only value-level
//                       functions (math, strings, sdk.Coins, ...), and never returns or breaks: nothing leaves in order
//       collect_sorted  the body only appends to slices (plus the above) and each of those slices is sorted by the
//                       statements that follow the loop before anything else happens to it
//       escaping        everything else (keeper / store / bank calls, events, returns, unsorted slices, outer
//                       accumulators): the iteration order can reach state, results or events
// The Coq development classifies the escaping sites by hand; an escaping site it does not know breaks the build.
package main

import (
	"bytes"
	"crypto/sha256"
	"encoding/hex"
	"encoding/json"
	"fmt"
	"go/ast"
	"go/importer"
	"go/parser"
	"go/printer"
	"go/token"
	"go/types"
	"io"
	"os"
	"os/exec"
	"path/filepath"
	"sort"
	"strings"
)

type listPkg struct {
	ImportPath string
	Export     string
	Dir        string
	GoFiles    []string
	CgoFiles   []string
	ImportMap  map[string]string
	Standard   bool
	DepOnly    bool
	Error      *struct{ Err string }
}

type site struct {
	File    string   `json:"file"`
	Func    string   `json:"func"`
	Hash    string   `json:"hash"`
	Class   string   `json:"class"`
	Line    int      `json:"line"` // informational only, not part of the identifier
	Ranged  string   `json:"ranged"`
	Why     []string `json:"why"` // for escaping sites: what lets the order out
	Snippet string   `json:"snippet"`
}

// in-memory state that outlives a transaction: struct fields and package-level variables of map / sync.Map type (and
// package-level variables of any type) that are written inside function bodies
type cacheSite struct {
	File   string   `json:"file"`  // where it is declared
	Owner  string   `json:"owner"` // Type.field or package-level variable
	Type   string   `json:"type"`
	Hash   string   `json:"hash"` // over the normalised write sites
	Writes []string `json:"writes"`
}

func fatal(f string, a ...interface{}) {
	fmt.Fprintf(os.Stderr, f+"\n", a...)
	os.Exit(2)
}

func main() {
	repo := os.Args[1]
	patterns := os.Args[2:]
	args := append([]string{"list", "-e", "-export", "-deps", "-json=ImportPath,Export,Dir,GoFiles,CgoFiles,ImportMap,Standard,DepOnly,Error"}, patterns...)
	cmd := exec.Command("go", args...)
	cmd.Dir = repo
	cmd.Stderr = os.Stderr
	outb, err := cmd.Output()
	if err != nil {
		fatal("go list failed: %v", err)
	}
	dec := json.NewDecoder(bytes.NewReader(outb))
	pkgs := map[string]*listPkg{}
	order := []string{}
	for dec.More() {
		var p listPkg
		if err := dec.Decode(&p); err != nil {
			fatal("go list output: %v", err)
		}
		pp := p
		pkgs[p.ImportPath] = &pp
		order = append(order, p.ImportPath)
	}
	fset := token.NewFileSet()
	sites := []site{}
	caches := map[types.Object]*cacheSite{}
	typeErrs := []string{}
	nPkgs := 0
	sort.Strings(order)
	for _, ip := range order {
		p := pkgs[ip]
		if p.Standard || p.DepOnly && !inScope(repo, p.Dir) {
			continue
		}
		if !inScope(repo, p.Dir) {
			continue
		}
		files := []*ast.File{}
		for _, f := range p.GoFiles {
			if strings.HasSuffix(f, ".pb.go") || strings.HasSuffix(f, ".pb.gw.go") || strings.HasSuffix(f, "_test.go") {
				continue
			}
			af, err := parser.ParseFile(fset, filepath.Join(p.Dir, f), nil, parser.SkipObjectResolution)
			if err != nil {
				fatal("parse %s: %v", f, err)
			}
			files = append(files, af)
		}
		// the generated files are needed for type checking (message types), but are not scanned
		all := append([]*ast.File{}, files...)
		for _, f := range p.GoFiles {
			if strings.HasSuffix(f, ".pb.go") || strings.HasSuffix(f, ".pb.gw.go") {
				af, err := parser.ParseFile(fset, filepath.Join(p.Dir, f), nil, parser.SkipObjectResolution)
				if err != nil {
					fatal("parse %s: %v", f, err)
				}
				all = append(all, af)
			}
		}
		if len(files) == 0 {
			continue
		}
		imp := importer.ForCompiler(fset, "gc", func(path string) (io.ReadCloser, error) {
			if m, ok := p.ImportMap[path]; ok {
				path = m
			}
			d, ok := pkgs[path]
			if !ok || d.Export == "" {
				return nil, fmt.Errorf("no export data for %s", path)
			}
			return os.Open(d.Export)
		})
		info := &types.Info{Types: map[ast.Expr]types.TypeAndValue{}, Uses: map[*ast.Ident]types.Object{}, Defs: map[*ast.Ident]types.Object{}, Selections: map[*ast.SelectorExpr]*types.Selection{}}
		nerr := 0
		conf := types.Config{Importer: imp, Error: func(err error) { nerr++ }, FakeImportC: true}
		conf.Check(ip, fset, all, info)
		if nerr > 0 && len(p.CgoFiles) == 0 {
			fmt.Fprintf(os.Stderr, "c19scan: %d type errors in %s (sites whose ranged expression could not be typed are reported as escaping)\n", nerr, ip)
			typeErrs = append(typeErrs, fmt.Sprintf("%s (%d)", ip, nerr))
		}
		nPkgs++
		for _, af := range files {
			scanFile(repo, fset, af, info, &sites)
		}
		for _, pass := range []int{0, 1} { // declarations of the whole package first, then the writes
			for _, af := range files {
				scanCaches(repo, fset, af, info, caches, pass)
			}
		}
	}
	sort.Slice(sites, func(i, j int) bool {
		a, b := sites[i], sites[j]
		if a.File != b.File {
			return a.File < b.File
		}
		if a.Func != b.Func {
			return a.Func < b.Func
		}
		return a.Line < b.Line
	})
	enc := json.NewEncoder(os.Stdout)
	enc.SetIndent("", " ")
	cl := []*cacheSite{}
	for _, c := range caches {
		if len(c.Writes) == 0 {
			continue
		}
		sort.Strings(c.Writes)
		h := sha256.Sum256([]byte(strings.Join(c.Writes, "\n")))
		c.Hash = hex.EncodeToString(h[:6])
		cl = append(cl, c)
	}
	sort.Slice(cl, func(i, j int) bool {
		if cl[i].File != cl[j].File {
			return cl[i].File < cl[j].File
		}
		return cl[i].Owner < cl[j].Owner
	})
	enc.Encode(map[string]interface{}{"packages": nPkgs, "sites": sites, "caches": cl, "type_errors": typeErrs})
}

func inScope(repo, dir string) bool {
	rel, err := filepath.Rel(repo, dir)
	if err != nil || strings.HasPrefix(rel, "..") {
		return false
	}
	rel = filepath.ToSlash(rel) + "/"
	if !(strings.HasPrefix(rel, "x/") || strings.HasPrefix(rel, "app/") || strings.HasPrefix(rel, "osmoutils/")) {
		return false
	}
	for _, ex := range []string{"/simulation/", "/client/cli/", "/testutil/", "/apptesting/", "/testhelpers/", "/testutils/", "/client/testutil/", "mock/", "/mocks/", "/osmocli/"} {
		if strings.Contains("/"+rel, ex) {
			return false
		}
	}
	return true
}

func src(fset *token.FileSet, n ast.Node) string {
	var b bytes.Buffer
	printer.Fprint(&b, fset, n)
	return b.String()
}

func norm(s string) string { return strings.Join(strings.Fields(s), " ") }

func scanFile(repo string, fset *token.FileSet, af *ast.File, info *types.Info, out *[]site) {
	fname, _ := filepath.Rel(repo, fset.Position(af.Pos()).Filename)
	// strip comments so that they do not enter the normalised snippet
	af.Comments = nil
	for _, d := range af.Decls {
		fd, ok := d.(*ast.FuncDecl)
		if !ok || fd.Body == nil {
			continue
		}
		name := fd.Name.Name
		if fd.Recv != nil && len(fd.Recv.List) > 0 {
			name = norm(src(fset, fd.Recv.List[0].Type)) + "." + name
			name = strings.TrimPrefix(name, "*")
		}
		scanBlock(fset, info, fname, name, fd, fd.Body, out)
	}
}

// scanBlock finds range statements (at any depth) together with the statements that follow them in their block
func scanBlock(fset *token.FileSet, info *types.Info, fname, fn string, fd *ast.FuncDecl, root ast.Node, out *[]site) {
	ast.Inspect(root, func(n ast.Node) bool {
		var list []ast.Stmt
		switch b := n.(type) {
		case *ast.BlockStmt:
			list = b.List
		case *ast.CaseClause:
			list = b.Body
		case *ast.CommClause:
			list = b.Body
		default:
			return true
		}
		for i, st := range list {
			if ls, ok := st.(*ast.LabeledStmt); ok {
				st = ls.Stmt
			}
			rs, ok := st.(*ast.RangeStmt)
			if !ok {
				continue
			}
			tv, typed := info.Types[rs.X]
			isMap := false
			if typed && tv.Type != nil {
				_, isMap = tv.Type.Underlying().(*types.Map)
			}
			if typed && !isMap {
				continue
			}
			s := site{File: fname, Func: fn, Line: fset.Position(rs.Pos()).Line, Ranged: norm(src(fset, rs.X))}
			if !typed {
				s.Class = "escaping"
				s.Why = []string{"ranged expression could not be typed"}
				s.Snippet = norm(src(fset, rs))
			} else {
				classify(fset, info, rs, list[i+1:], &s)
			}
			if s.Class == "escaping" {
				// what makes a hand-classified site safe may sit anywhere in its function (a sort before the return,
				// the way the collected slice is consumed): its identity covers the whole function and the loop
				s.Snippet = norm(src(fset, fd)) + " @@ " + norm(src(fset, rs))
			}
			h := sha256.Sum256([]byte(s.Snippet))
			s.Hash = hex.EncodeToString(h[:6])
			*out = append(*out, s)
		}
		return true
	})
}

var purePkgs = map[string]bool{
	"strings": true, "strconv": true, "fmt": true, "sort": true, "math": true, "math/big": true, "bytes": true, "time": true,
	"errors": true, "slices": true, "maps": true, "unicode": true, "encoding/hex": true, "encoding/binary": true,
	"cosmossdk.io/math": true, "cosmossdk.io/errors": true, "github.com/osmosis-labs/osmosis/osmomath": true,
	"github.com/cosmos/cosmos-sdk/types": true, "github.com/cosmos/cosmos-sdk/types/errors": true,
	"github.com/cosmos/cosmos-sdk/x/auth/types": true, // NewModuleAddress, PermissionsForAddress: address arithmetic, no keeper
}

// value-level helpers of the sdk types package are pure; these are not
var impureSdk = map[string]bool{"EventManager": true, "Context": true}

func calleePure(info *types.Info, call *ast.CallExpr) (bool, string) {
	// conversions and builtins
	if tv, ok := info.Types[call.Fun]; ok && tv.IsType() {
		return true, ""
	}
	switch f := call.Fun.(type) {
	case *ast.Ident:
		if obj, ok := info.Uses[f]; ok {
			if _, isB := obj.(*types.Builtin); isB {
				return true, ""
			}
			if obj.Pkg() != nil && purePkgs[obj.Pkg().Path()] {
				return true, ""
			}
		}
		return false, "call " + f.Name
	case *ast.SelectorExpr:
		if sel, ok := info.Selections[f]; ok {
			// method: pure iff its receiver's named type lives in a value-level package
			recv := sel.Recv()
			for {
				if p, ok := recv.(*types.Pointer); ok {
					recv = p.Elem()
					continue
				}
				break
			}
			if named, ok := recv.(*types.Named); ok && named.Obj().Pkg() != nil {
				if purePkgs[named.Obj().Pkg().Path()] && !impureSdk[named.Obj().Name()] {
					return true, ""
				}
			}
			return false, "call " + f.Sel.Name
		}
		// package-qualified function
		if obj, ok := info.Uses[f.Sel]; ok {
			// functions and function-valued variables (osmomath.ZeroInt = sdkmath.ZeroInt) of value-level packages
			if obj.Pkg() != nil && purePkgs[obj.Pkg().Path()] {
				return true, ""
			}
		}
		return false, "call " + f.Sel.Name
	}
	return false, "call"
}

// classify decides the effect class of one map-range loop; rest = the statements after the loop in its block
func classify(fset *token.FileSet, info *types.Info, rs *ast.RangeStmt, rest []ast.Stmt, s *site) {
	why := map[string]bool{}
	local := map[types.Object]bool{} // variables declared inside the loop (incl. key / value)
	for _, e := range []ast.Expr{rs.Key, rs.Value} {
		if id, ok := e.(*ast.Ident); ok && rs.Tok == token.DEFINE {
			if o := info.Defs[id]; o != nil {
				local[o] = true
			}
		}
	}
	ast.Inspect(rs.Body, func(n ast.Node) bool {
		if id, ok := n.(*ast.Ident); ok {
			if o := info.Defs[id]; o != nil {
				local[o] = true
			}
		}
		return true
	})
	appended := map[types.Object]string{} // outer slices that receive appends
	rootObj := func(e ast.Expr) (types.Object, bool) {
		// the variable at the root of an lvalue, and whether the path goes through a map index
		viaMap := false
		for {
			switch x := e.(type) {
			case *ast.Ident:
				if o := info.Uses[x]; o != nil {
					return o, viaMap
				}
				return info.Defs[x], viaMap
			case *ast.IndexExpr:
				if tv, ok := info.Types[x.X]; ok {
					if _, isM := tv.Type.Underlying().(*types.Map); isM {
						viaMap = true
					}
				}
				e = x.X
			case *ast.SelectorExpr:
				e = x.X
			case *ast.StarExpr:
				e = x.X
			case *ast.ParenExpr:
				e = x.X
			default:
				return nil, viaMap
			}
		}
	}
	var walk func(n ast.Node)
	walk = func(n ast.Node) {
		ast.Inspect(n, func(n ast.Node) bool {
			switch x := n.(type) {
			case *ast.FuncLit:
				why["closure"] = true
				return false
			case *ast.ReturnStmt:
				why["return inside the loop"] = true
			case *ast.BranchStmt:
				if x.Tok == token.BREAK || x.Tok == token.GOTO {
					why["break inside the loop"] = true
				}
			case *ast.GoStmt, *ast.DeferStmt, *ast.SendStmt:
				why["go/defer/send"] = true
			case *ast.CallExpr:
				if ok, w := calleePure(info, x); !ok {
					why[w] = true
				}
			case *ast.IncDecStmt:
				if o, viaMap := rootObj(x.X); o == nil || (!local[o] && !viaMap) {
					why["outer variable updated"] = true
				}
			case *ast.AssignStmt:
				for i, lhs := range x.Lhs {
					if id, ok := lhs.(*ast.Ident); ok && id.Name == "_" {
						continue
					}
					o, viaMap := rootObj(lhs)
					if o != nil && (local[o] || viaMap) {
						continue
					}
					// s = append(s, ...) on an outer slice
					if o != nil && len(x.Lhs) == len(x.Rhs) {
						if call, ok := x.Rhs[i].(*ast.CallExpr); ok {
							if fid, ok := call.Fun.(*ast.Ident); ok && fid.Name == "append" && len(call.Args) > 0 {
								if ro, _ := rootObj(call.Args[0]); ro == o {
									if _, isId := lhs.(*ast.Ident); isId {
										appended[o] = o.Name()
										continue
									}
								}
							}
						}
					}
					why["outer variable updated"] = true
				}
			}
			return true
		})
	}
	walk(rs.Body)
	snippet := norm(src(fset, rs))
	// slices filled in the loop: each must be sorted by the statements that directly follow the loop
	if len(appended) > 0 {
		sorted := map[types.Object]bool{}
		for _, st := range rest {
			es, ok := st.(*ast.ExprStmt)
			if !ok {
				break
			}
			call, ok := es.X.(*ast.CallExpr)
			if !ok || len(call.Args) == 0 {
				break
			}
			fname := norm(src(fset, call.Fun))
			isSort := false
			for _, p := range []string{"sort.Strings", "sort.Slice", "sort.SliceStable", "sort.Ints", "sort.Sort", "sort.Stable", "slices.Sort", "slices.SortFunc", "slices.SortStableFunc", "osmoutils.SortSlice", "sort.Float64s"} {
				if fname == p {
					isSort = true
				}
			}
			if !isSort {
				break
			}
			if o, _ := rootObj(call.Args[0]); o != nil && appended[o] != "" {
				sorted[o] = true
				snippet += " ; " + norm(src(fset, st))
				continue
			}
			break
		}
		for o, name := range appended {
			if !sorted[o] {
				why["slice "+name+" filled in map order and not sorted right after the loop"] = true
			}
		}
	}
	s.Snippet = snippet
	if len(why) == 0 {
		if len(appended) > 0 {
			s.Class = "collect_sorted"
		} else {
			s.Class = "pure"
		}
		return
	}
	s.Class = "escaping"
	for w := range why {
		s.Why = append(s.Why, w)
	}
	sort.Strings(s.Why)
}

func isMapLike(t types.Type) bool {
	for {
		if p, ok := t.(*types.Pointer); ok {
			t = p.Elem()
			continue
		}
		break
	}
	if _, ok := t.Underlying().(*types.Map); ok {
		return true
	}
	if n, ok := t.(*types.Named); ok && n.Obj().Pkg() != nil && n.Obj().Pkg().Path() == "sync" && n.Obj().Name() == "Map" {
		return true
	}
	return false
}

// scanCaches records (a) the declarations: struct fields of map / sync.Map type and package-level variables, (b) every
// statement inside a function body that writes them: assignment to (an element / field of) them, delete(), and the
// mutating methods of sync.Map.
func scanCaches(repo string, fset *token.FileSet, af *ast.File, info *types.Info, out map[types.Object]*cacheSite, pass int) {
	fname, _ := filepath.Rel(repo, fset.Position(af.Pos()).Filename)
	decl := func(o types.Object, owner string) {
		if o == nil {
			return
		}
		if _, ok := out[o]; !ok {
			f, _ := filepath.Rel(repo, fset.Position(o.Pos()).Filename)
			out[o] = &cacheSite{File: f, Owner: owner, Type: types.TypeString(o.Type(), func(p *types.Package) string { return p.Name() })}
		}
	}
	for _, d := range af.Decls {
		gd, ok := d.(*ast.GenDecl)
		if !ok || pass != 0 {
			continue
		}
		for _, sp := range gd.Specs {
			switch x := sp.(type) {
			case *ast.TypeSpec:
				st, ok := x.Type.(*ast.StructType)
				if !ok {
					continue
				}
				for _, f := range st.Fields.List {
					for _, nm := range f.Names {
						o := info.Defs[nm]
						if o != nil && isMapLike(o.Type()) {
							decl(o, x.Name.Name+"."+nm.Name)
						}
					}
				}
			case *ast.ValueSpec:
				if gd.Tok != token.VAR {
					continue
				}
				for _, nm := range x.Names {
					if nm.Name == "_" {
						continue
					}
					if o := info.Defs[nm]; o != nil {
						decl(o, nm.Name)
					}
				}
			}
		}
	}
	// the object (struct field or package-level variable) an lvalue / receiver expression designates
	var target func(e ast.Expr) types.Object
	target = func(e ast.Expr) types.Object {
		switch x := e.(type) {
		case *ast.Ident:
			if o, ok := info.Uses[x].(*types.Var); ok && o.Parent() != nil && o.Parent() == o.Pkg().Scope() {
				return o
			}
		case *ast.SelectorExpr:
			if sel, ok := info.Selections[x]; ok && sel.Kind() == types.FieldVal {
				if isMapLike(sel.Obj().Type()) {
					return sel.Obj()
				}
				return target(x.X)
			}
			if o, ok := info.Uses[x.Sel].(*types.Var); ok && o.Parent() != nil && o.Pkg() != nil && o.Parent() == o.Pkg().Scope() {
				return o // pkg.Var
			}
		case *ast.IndexExpr:
			return target(x.X)
		case *ast.StarExpr:
			return target(x.X)
		case *ast.ParenExpr:
			return target(x.X)
		}
		return nil
	}
	note := func(o types.Object, fn string, n ast.Node) {
		if o == nil {
			return
		}
		c, ok := out[o]
		if !ok {
			// declared in a file not yet visited (or in another package of the scan): create on demand
			if v, isVar := o.(*types.Var); isVar && (v.IsField() && isMapLike(v.Type()) || !v.IsField()) {
				f, _ := filepath.Rel(repo, fset.Position(o.Pos()).Filename)
				if strings.HasPrefix(f, "..") {
					return
				}
				c = &cacheSite{File: f, Owner: o.Name(), Type: types.TypeString(o.Type(), func(p *types.Package) string { return p.Name() })}
				out[o] = c
			} else {
				return
			}
		}
		c.Writes = append(c.Writes, fname+" "+fn+": "+norm(src(fset, n)))
	}
	for _, d := range af.Decls {
		fd, ok := d.(*ast.FuncDecl)
		if !ok || fd.Body == nil || pass != 1 {
			continue
		}
		name := fd.Name.Name
		if fd.Recv != nil && len(fd.Recv.List) > 0 {
			name = strings.TrimPrefix(norm(src(fset, fd.Recv.List[0].Type)), "*") + "." + name
		}
		ast.Inspect(fd.Body, func(n ast.Node) bool {
			switch x := n.(type) {
			case *ast.AssignStmt:
				for _, lhs := range x.Lhs {
					note(target(lhs), name, x)
				}
			case *ast.IncDecStmt:
				note(target(x.X), name, x)
			case *ast.CallExpr:
				if id, ok := x.Fun.(*ast.Ident); ok && id.Name == "delete" && len(x.Args) > 0 {
					note(target(x.Args[0]), name, x)
				}
				if se, ok := x.Fun.(*ast.SelectorExpr); ok {
					switch se.Sel.Name {
					case "Store", "Delete", "LoadOrStore", "LoadAndDelete", "Swap", "CompareAndSwap", "CompareAndDelete", "Clear":
						if o := target(se.X); o != nil && isMapLike(o.Type()) {
							note(o, name, x)
						}
					}
				}
			}
			return true
		})
	}
}
