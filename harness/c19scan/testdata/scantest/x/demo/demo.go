package demo

import (
	"fmt"
	"sort"
)

type store struct{ m map[string]int }

func (s *store) Set(k string, v int) { s.m[k] = v }

func copyMap(m map[string]int) map[string]int {
	out := map[string]int{}
	for k, v := range m {
		out[k] = v + 1
	}
	return out
}

func sortedKeys(m map[string]int) []string {
	ks := make([]string, 0, len(m))
	for k := range m {
		ks = append(ks, k)
	}
	sort.Strings(ks)
	return ks
}

func unsortedKeys(m map[string]int) []string {
	ks := []string{}
	for k := range m {
		ks = append(ks, k)
	}
	return ks
}

func sortedLater(m map[string]int) []string {
	ks := []string{}
	for k := range m {
		ks = append(ks, k)
	}
	fmt.Println(len(ks))
	sort.Strings(ks)
	return ks
}

func writes(s *store, m map[string]int) {
	for k, v := range m {
		s.Set(k, v)
	}
}

func sum(m map[string]int) int {
	t := 0
	for _, v := range m {
		t += v
	}
	return t
}

func first(m map[string]int) string {
	for k := range m {
		return k
	}
	return ""
}

func notAMap(l []int) int {
	t := 0
	for _, v := range l {
		t += v
	}
	return t
}

type named map[string]int

func namedMap(m named) map[string]bool {
	out := map[string]bool{}
	for k := range m {
		out[k] = true
	}
	return out
}
