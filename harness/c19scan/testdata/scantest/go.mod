module scantest

go 1.23
