// Package c11drv drives the real x/superfluid module (full app) for property C11: one fresh chain per case with
// several bonded validators, three owners and one or more superfluid-enabled pool share denominations; a history of
// superfluid / lockup operations is executed (message servers and keeper entry points, each atomically through
// apph.Atomic) and after every operation the projected observables are printed: result code, block time, OSMO supply
// and supply offset, multipliers, validator tokens/shares, and per (denom, validator) the intermediary account's
// delegation, GetExpectedDelegationAmount and the synthetic-denom accumulators, all lock <-> account connections,
// all synthetic locks and all locks.
package c11drv

import (
	"fmt"
	"math/big"
	"sort"
	"strings"
	"testing"
	"time"

	"github.com/cosmos/cosmos-sdk/crypto/keys/secp256k1"
	sdk "github.com/cosmos/cosmos-sdk/types"
	slashingtypes "github.com/cosmos/cosmos-sdk/x/slashing/types"
	stakingkeeper "github.com/cosmos/cosmos-sdk/x/staking/keeper"
	stakingtypes "github.com/cosmos/cosmos-sdk/x/staking/types"

	"github.com/osmosis-labs/osmosis/osmomath"
	cl "github.com/osmosis-labs/osmosis/v31/x/concentrated-liquidity"
	clmodel "github.com/osmosis-labs/osmosis/v31/x/concentrated-liquidity/model"
	cltypes "github.com/osmosis-labs/osmosis/v31/x/concentrated-liquidity/types"
	gammtypes "github.com/osmosis-labs/osmosis/v31/x/gamm/types"
	incentivetypes "github.com/osmosis-labs/osmosis/v31/x/incentives/types"
	lockupkeeper "github.com/osmosis-labs/osmosis/v31/x/lockup/keeper"
	lockuptypes "github.com/osmosis-labs/osmosis/v31/x/lockup/types"
	poolmanagertypes "github.com/osmosis-labs/osmosis/v31/x/poolmanager/types"
	sfkeeper "github.com/osmosis-labs/osmosis/v31/x/superfluid/keeper"
	sftypes "github.com/osmosis-labs/osmosis/v31/x/superfluid/types"

	"verifharness/apph"
)

type denomSpec struct {
	Kind string `json:"kind"` // "gamm" | "cl"
	Mult string `json:"mult"` // gamm: initial OSMO-per-share multiplier (SetupGammPoolsWithBondDenomMultiplier)
	SF   bool   `json:"sf"`   // registered as superfluid asset
}

type op struct {
	K     string   `json:"k"`
	O     int      `json:"o"`  // owner index (0-based)
	ID    uint64   `json:"id"` // lock id
	D     int      `json:"d"`  // denom index
	V     int      `json:"v"`  // validator index (>= nval: a well-formed address of no validator)
	Amt   string   `json:"amt"`
	Dur   int64    `json:"dur"` // ns
	Dt    int64    `json:"dt"`  // ns
	Mode  string   `json:"mode"`
	Mults []string `json:"mults"`
	Dir   int      `json:"dir"`
}

type cs struct {
	NVal   int         `json:"nval"`
	Denoms []denomSpec `json:"denoms"`
	RF     string      `json:"rf"`  // MinimumRiskFactor
	Unb    int64       `json:"unb"` // staking unbonding time ns (0: keep default)
	VTok   []string    `json:"vtok"` // optional: extra tokens credited to validator i without shares (exchange rate != 1)
	Force  []int       `json:"force"` // owners on lockup's ForceUnlockAllowedAddresses list
	Ops    []op        `json:"ops"`
}

type obs struct {
	Err  string     `json:"err,omitempty"`
	Unb  string     `json:"unb"`
	Flat [][]string `json:"flat"` // one row per op (row 0: state after setup)
	Msgs []string   `json:"msgs,omitempty"`
	Ord  [][]int    `json:"ord"` // per epoch / slash op: store order of the intermediary accounts (d*nval+v)
	Inv  []int      `json:"inv"` // per op: 1 if TotalSuperfluidDelegationInvariant reports broken
}

func classify(err error) int {
	if err == nil {
		return 0
	}
	s := err.Error()
	switch {
	case strings.HasPrefix(s, "panic:"):
		return 98
	case strings.Contains(s, "lockup not found") || (strings.Contains(s, "lock with ID") && strings.Contains(s, "does not exist")):
		return 1
	case strings.Contains(s, "not the owner of specified lock") || strings.Contains(s, "does not match"):
		return 2
	case strings.Contains(s, "not supported for superfluid staking") || strings.Contains(s, "superfluid asset") :
		return 3
	case strings.Contains(s, "unbonding lockup is not allowed"):
		return 4
	case strings.Contains(s, "does not have enough lock duration"):
		return 5
	case strings.Contains(s, "already being used for superfluid staking"):
		return 6
	case strings.Contains(s, "zero osmo equivalent"):
		return 7
	case strings.Contains(s, "validator does not exist"):
		return 8
	case strings.Contains(s, "lockup is not used for superfluid staking"):
		return 9
	case strings.Contains(s, "bonded superfluid stake is not allowed"):
		return 10
	case strings.Contains(s, "invalid shares amount"):
		return 11
	case strings.Contains(s, "amount to unlock must be greater than 0"):
		return 12
	case strings.Contains(s, "exceeds locked tokens"):
		return 13
	case strings.Contains(s, "cannot BeginUnlocking a lock with synthetic lockup"):
		return 14
	case strings.Contains(s, "already unlocking"):
		return 15
	case strings.Contains(s, "hasn't started unlocking"):
		return 16
	case strings.Contains(s, "not unlockable yet"):
		return 17
	case strings.Contains(s, "synthetic lockup already exists"):
		return 18
	case strings.Contains(s, "synthetic lock with ID"):
		return 19
	case strings.Contains(s, "insufficient funds") || strings.Contains(s, "is smaller than"):
		return 20
	case strings.Contains(s, "does not have expected prefix"):
		return 23
	case strings.Contains(s, "not allowed to force unlock"):
		return 21
	case strings.Contains(s, "superfluid delegation exists for lock"):
		return 22
	}
	return 97
}

type drv struct {
	h      *apph.Helper
	c      cs
	ctx    sdk.Context
	t0     time.Time
	vals   []sdk.ValAddress
	valStr []string
	owners []sdk.AccAddress
	denoms []string
	pools  []uint64
	bond   string
	unb    time.Duration
	msgs   []string
	ord    [][]int
}

func (d *drv) rel(t time.Time) string {
	if t.Equal(time.Time{}) {
		return "0"
	}
	return fmt.Sprintf("%d", t.UnixNano()-d.t0.UnixNano()+1_000_000_000)
}

func (d *drv) valIdx(s string) int {
	for i, v := range d.valStr {
		if v == s {
			return i
		}
	}
	return -1
}

func (d *drv) denomIdx(s string) int {
	for i, v := range d.denoms {
		if v == s {
			return i
		}
	}
	return -1
}

func (d *drv) ownerIdx(s string) int {
	for i, v := range d.owners {
		if v.String() == s {
			return i
		}
	}
	return -1
}

func (d *drv) valAddrStr(i int) string {
	if i >= 0 && i < len(d.valStr) {
		return d.valStr[i]
	}
	b := make([]byte, 20)
	for j := range b {
		b[j] = byte(0xA0 + i)
	}
	return sdk.ValAddress(b).String()
}

func (d *drv) owner(i int) sdk.AccAddress {
	return d.owners[((i%len(d.owners))+len(d.owners))%len(d.owners)]
}

func bi(s string) osmomath.Int {
	v, ok := osmomath.NewIntFromString(s)
	if !ok {
		return osmomath.ZeroInt()
	}
	return v
}

// poolInputs returns the two numbers the multiplier of a superfluid denom is computed from (epoch.go):
// gamm: OSMO in the pool, total pool shares (integers); cl: OSMO of the full-range position, full range liquidity (Dec raw).
func (d *drv) poolInputs(ctx sdk.Context, i int) (string, string) {
	app := d.h.App
	if d.c.Denoms[i].Kind == "gamm" {
		pool, err := app.GAMMKeeper.GetPoolAndPoke(ctx, d.pools[i])
		if err != nil {
			return "-1", "-1"
		}
		return pool.GetTotalPoolLiquidity(ctx).AmountOf(d.bond).String(), pool.GetTotalShares().String()
	}
	pool, err := app.ConcentratedLiquidityKeeper.GetConcentratedPoolById(ctx, d.pools[i])
	if err != nil {
		return "-1", "-1"
	}
	liq, err := app.ConcentratedLiquidityKeeper.GetFullRangeLiquidityInPool(ctx, d.pools[i])
	if err != nil {
		return "-1", "-1"
	}
	pos := clmodel.Position{LowerTick: cltypes.MinInitializedTick, UpperTick: cltypes.MaxTick, Liquidity: liq}
	a0, a1, err := cl.CalculateUnderlyingAssetsFromPosition(ctx, pos, pool)
	if err != nil {
		return "-1", "-1"
	}
	return sdk.NewCoins(a0, a1).AmountOf(d.bond).String(), liq.BigInt().String()
}

func (d *drv) observe(code int, newID string) []string {
	app := d.h.App
	ctx := d.ctx
	row := []string{fmt.Sprint(code), newID, d.rel(ctx.BlockTime())}
	row = append(row, app.BankKeeper.GetSupply(ctx, d.bond).Amount.String(),
		app.BankKeeper.GetSupplyOffset(ctx, d.bond).String(),
		app.BankKeeper.GetSupplyWithOffset(ctx, d.bond).Amount.String(),
		app.BankKeeper.GetBalance(ctx, app.AccountKeeper.GetModuleAddress(stakingtypes.BondedPoolName), d.bond).Amount.String())
	for i, dn := range d.denoms {
		row = append(row, app.SuperfluidKeeper.GetOsmoEquivalentMultiplier(ctx, dn).BigInt().String())
		a, b := d.poolInputs(ctx, i)
		row = append(row, a, b)
	}
	for _, v := range d.vals {
		val, err := app.StakingKeeper.GetValidator(ctx, v)
		if err != nil {
			row = append(row, "-1", "-1")
			continue
		}
		row = append(row, val.Tokens.String(), val.DelegatorShares.BigInt().String())
	}
	for _, dn := range d.denoms {
		for vi, v := range d.vals {
			addr := sftypes.GetSuperfluidIntermediaryAccountAddr(dn, d.valStr[vi])
			acc := app.SuperfluidKeeper.GetIntermediaryAccount(ctx, addr)
			exists := "0"
			if !acc.Empty() {
				exists = "1"
			}
			shares, tokens := "0", "0"
			del, err := app.StakingKeeper.GetDelegation(ctx, addr, v)
			if err == nil {
				val, _ := app.StakingKeeper.GetValidator(ctx, v)
				shares = del.Shares.BigInt().String()
				tokens = val.TokensFromShares(del.Shares).RoundInt().String()
			}
			expected := "0"
			if !acc.Empty() {
				e, err := app.SuperfluidKeeper.GetExpectedDelegationAmount(ctx, acc)
				if err != nil {
					expected = "-1"
				} else {
					expected = e.String()
				}
			}
			stk := app.LockupKeeper.GetPeriodLocksAccumulation(ctx, lockuptypes.QueryCondition{LockQueryType: lockuptypes.ByDuration, Denom: fmt.Sprintf("%s/superbonding/%s", dn, d.valStr[vi]), Duration: d.unb})
			ustk := app.LockupKeeper.GetPeriodLocksAccumulation(ctx, lockuptypes.QueryCondition{LockQueryType: lockuptypes.ByDuration, Denom: fmt.Sprintf("%s/superunbonding/%s", dn, d.valStr[vi]), Duration: d.unb})
			bal := app.BankKeeper.GetBalance(ctx, addr, d.bond).Amount.String()
			row = append(row, exists, shares, tokens, expected, stk.String(), ustk.String(), bal)
		}
	}
	// connections
	conns := app.SuperfluidKeeper.GetAllLockIdIntermediaryAccountConnections(ctx)
	sort.Slice(conns, func(i, j int) bool { return conns[i].LockId < conns[j].LockId })
	row = append(row, fmt.Sprint(len(conns)))
	for _, c := range conns {
		a, _ := sdk.AccAddressFromBech32(c.IntermediaryAccount)
		acc := app.SuperfluidKeeper.GetIntermediaryAccount(ctx, a)
		row = append(row, fmt.Sprint(c.LockId), fmt.Sprint(d.denomIdx(acc.Denom)), fmt.Sprint(d.valIdx(acc.ValAddr)))
	}
	// synthetic locks
	sl := app.LockupKeeper.GetAllSyntheticLockups(ctx)
	sort.Slice(sl, func(i, j int) bool {
		if sl[i].UnderlyingLockId != sl[j].UnderlyingLockId {
			return sl[i].UnderlyingLockId < sl[j].UnderlyingLockId
		}
		return sl[i].SynthDenom < sl[j].SynthDenom
	})
	row = append(row, fmt.Sprint(len(sl)))
	for _, s := range sl {
		kind, sep := -1, ""
		if strings.Contains(s.SynthDenom, "/superbonding/") {
			kind, sep = 0, "/superbonding/"
		} else if strings.Contains(s.SynthDenom, "/superunbonding/") {
			kind, sep = 1, "/superunbonding/"
		}
		di, vi := -1, -1
		if sep != "" {
			parts := strings.SplitN(s.SynthDenom, sep, 2)
			di, vi = d.denomIdx(parts[0]), d.valIdx(parts[1])
		}
		row = append(row, fmt.Sprint(s.UnderlyingLockId), fmt.Sprint(kind), fmt.Sprint(di), fmt.Sprint(vi), d.rel(s.EndTime), fmt.Sprint(int64(s.Duration)))
	}
	// locks
	locks, _ := app.LockupKeeper.GetPeriodLocks(ctx)
	sort.Slice(locks, func(i, j int) bool { return locks[i].ID < locks[j].ID })
	row = append(row, fmt.Sprint(len(locks)))
	for _, l := range locks {
		dn, amt := -1, "0"
		if len(l.Coins) == 1 {
			dn, amt = d.denomIdx(l.Coins[0].Denom), l.Coins[0].Amount.String()
		}
		row = append(row, fmt.Sprint(l.ID), fmt.Sprint(d.ownerIdx(l.Owner)), fmt.Sprint(dn), amt, fmt.Sprint(int64(l.Duration)), d.rel(l.EndTime))
	}
	// superfluid query: total superfluid delegations
	q := sfkeeper.NewQuerier(*app.SuperfluidKeeper)
	tot, err := q.TotalSuperfluidDelegations(ctx, &sftypes.TotalSuperfluidDelegationsRequest{})
	if err != nil {
		row = append(row, "-1")
	} else {
		row = append(row, tot.TotalDelegations.String())
	}
	return row
}

func (d *drv) setup(t *testing.T) {
	h := d.h
	app := h.App
	d.ctx = h.Ctx
	d.t0 = h.Ctx.BlockTime()
	var err error
	d.bond, err = app.StakingKeeper.BondDenom(h.Ctx)
	if err != nil {
		panic(err)
	}
	sp, err := app.StakingKeeper.GetParams(h.Ctx)
	if err != nil {
		panic(err)
	}
	if d.c.Unb > 0 {
		sp.UnbondingTime = time.Duration(d.c.Unb)
		if err := app.StakingKeeper.SetParams(h.Ctx, sp); err != nil {
			panic(err)
		}
	}
	d.unb = sp.UnbondingTime
	app.IncentivesKeeper.SetLockableDurations(h.Ctx, []time.Duration{time.Hour * 24 * 14, time.Hour, time.Hour * 3, time.Hour * 7, d.unb})
	app.IncentivesKeeper.SetParam(h.Ctx, incentivetypes.KeyMinValueForDistr, sdk.NewCoin(d.bond, osmomath.NewInt(1)))
	if d.c.RF != "" {
		p := app.SuperfluidKeeper.GetParams(h.Ctx)
		p.MinimumRiskFactor = osmomath.MustNewDecFromStr(d.c.RF)
		app.SuperfluidKeeper.SetParams(h.Ctx, p)
	}
	for i := 0; i < d.c.NVal; i++ {
		v := d.setupValidator(i)
		d.vals = append(d.vals, v)
		d.valStr = append(d.valStr, v.String())
	}
	for i, s := range d.c.VTok {
		if i >= len(d.vals) || s == "" || s == "0" {
			continue
		}
		// credit tokens to the validator without issuing shares (what a reward auto-compound or a past slash leaves behind:
		// an exchange rate different from 1); the bonded pool is funded accordingly
		amt := bi(s)
		val, err := app.StakingKeeper.GetValidator(h.Ctx, d.vals[i])
		if err != nil {
			panic(err)
		}
		h.FundModuleAcc(stakingtypes.BondedPoolName, sdk.NewCoins(sdk.NewCoin(d.bond, amt)))
		val.Tokens = val.Tokens.Add(amt)
		if err := app.StakingKeeper.SetValidator(h.Ctx, val); err != nil {
			panic(err)
		}
	}
	d.owners = h.TestAccs
	if len(d.c.Force) > 0 {
		lp := app.LockupKeeper.GetParams(h.Ctx)
		for _, i := range d.c.Force {
			lp.ForceUnlockAllowedAddresses = append(lp.ForceUnlockAllowedAddresses, d.owner(i).String())
		}
		app.LockupKeeper.SetParams(h.Ctx, lp)
	}
	// all OSMO (and swap tokens) the history will need is minted here, before the first observation, so that the
	// only OSMO supply changes during the history are the superfluid module's own
	big30 := bi("1000000000000000000000000000000")
	for _, a := range d.owners {
		h.FundAcc(a, sdk.NewCoins(sdk.NewCoin(d.bond, big30), sdk.NewCoin("usdc", big30), sdk.NewCoin("token0", big30)))
	}
	gi := 0
	for _, ds := range d.c.Denoms {
		switch ds.Kind {
		case "gamm":
			pools := h.SetupGammPoolsWithBondDenomMultiplier([]osmomath.Dec{osmomath.MustNewDecFromStr(ds.Mult)})
			_ = gi
			id := pools[0].GetId()
			d.pools = append(d.pools, id)
			dn := gammtypes.GetPoolShareDenom(id)
			d.denoms = append(d.denoms, dn)
			if ds.SF {
				if err := app.SuperfluidKeeper.AddNewSuperfluidAsset(h.Ctx, sftypes.SuperfluidAsset{Denom: dn, AssetType: sftypes.SuperfluidAssetTypeLPShare}); err != nil {
					panic(err)
				}
			}
		case "cl":
			pool := h.PrepareConcentratedPoolWithCoinsAndFullRangePosition(d.bond, "usdc")
			id := pool.GetId()
			d.pools = append(d.pools, id)
			dn := cltypes.GetConcentratedLockupDenomFromPoolId(id)
			d.denoms = append(d.denoms, dn)
			if ds.SF {
				if err := app.SuperfluidKeeper.AddNewSuperfluidAsset(h.Ctx, sftypes.SuperfluidAsset{Denom: dn, AssetType: sftypes.SuperfluidAssetTypeConcentratedShare}); err != nil {
					panic(err)
				}
			}
		default:
			panic("bad denom kind")
		}
	}
	d.ctx = h.Ctx
}

// setupValidator is apptesting.SetupValidator(Bonded) with a deterministic key, so that validator addresses - and with
// them the intermediary account addresses and the store order the epoch refresh iterates in - are the same in every run.
func (d *drv) setupValidator(i int) sdk.ValAddress {
	h := d.h
	valPub := secp256k1.GenPrivKeyFromSecret([]byte(fmt.Sprintf("c11-validator-%d", i))).PubKey()
	valAddr := sdk.ValAddress(valPub.Address())
	bondAmt := sdk.DefaultPowerReduction
	selfBond := sdk.NewCoins(sdk.Coin{Amount: bondAmt, Denom: d.bond})
	h.FundAcc(sdk.AccAddress(valAddr), selfBond)
	zero := osmomath.ZeroDec()
	msg, err := stakingtypes.NewMsgCreateValidator(valAddr.String(), valPub, selfBond[0],
		stakingtypes.Description{Moniker: fmt.Sprintf("v%d", i)}, stakingtypes.NewCommissionRates(zero, zero, zero), osmomath.OneInt())
	if err != nil {
		panic(err)
	}
	if _, err := stakingkeeper.NewMsgServerImpl(h.App.StakingKeeper).CreateValidator(h.Ctx, msg); err != nil {
		panic(err)
	}
	val, err := h.App.StakingKeeper.GetValidator(h.Ctx, valAddr)
	if err != nil {
		panic(err)
	}
	val = val.UpdateStatus(stakingtypes.Bonded)
	if err := h.App.StakingKeeper.SetValidator(h.Ctx, val); err != nil {
		panic(err)
	}
	// CreateValidator leaves the self-bond in the not-bonded pool and UpdateStatus only flips the flag: give the bonded pool the
	// matching coins, so that bonded pool balance = sum of bonded validators' tokens (a slash burns from the bonded pool)
	h.FundModuleAcc(stakingtypes.BondedPoolName, selfBond)
	consAddr, err := val.GetConsAddr()
	if err != nil {
		panic(err)
	}
	if err := h.App.SlashingKeeper.SetValidatorSigningInfo(h.Ctx, consAddr,
		slashingtypes.NewValidatorSigningInfo(consAddr, h.Ctx.BlockHeight(), time.Unix(0, 0), false, 0)); err != nil {
		panic(err)
	}
	return valAddr
}

func (d *drv) accIndex(acc sftypes.SuperfluidIntermediaryAccount) int {
	return d.denomIdx(acc.Denom)*(len(d.vals)) + d.valIdx(acc.ValAddr)
}

func (d *drv) step(o op) (int, string) {
	app := d.h.App
	sfms := sfkeeper.NewMsgServerImpl(app.SuperfluidKeeper)
	lkms := lockupkeeper.NewMsgServerImpl(app.LockupKeeper)
	var newID uint64
	newVal := ""
	var err error
	switch o.K {
	case "lock":
		coin := sdk.NewCoin(d.denoms[o.D], bi(o.Amt))
		err = apph.Atomic(d.ctx, func(ctx sdk.Context) error {
			d.h.Ctx = ctx
			d.h.FundAcc(d.owner(o.O), sdk.NewCoins(coin))
			l, e := app.LockupKeeper.CreateLock(ctx, d.owner(o.O), sdk.NewCoins(coin), time.Duration(o.Dur))
			newID = l.ID
			return e
		})
		d.h.Ctx = d.ctx
	case "cllock":
		// a locked full-range position in the concentrated pool behind denom o.D (the lock holds cl/pool/N shares)
		amt := bi(o.Amt)
		err = apph.Atomic(d.ctx, func(ctx sdk.Context) error {
			d.h.Ctx = ctx
			coins := sdk.NewCoins(sdk.NewCoin(d.bond, amt), sdk.NewCoin("usdc", amt))
			_, id, e := app.ConcentratedLiquidityKeeper.CreateFullRangePositionLocked(ctx, d.pools[o.D], d.owner(o.O), coins, time.Duration(o.Dur))
			newID = id
			return e
		})
		d.h.Ctx = d.ctx
	case "locktokens":
		// lockup MsgLockTokens: adds to the owner's existing bonded lock of the same denom and duration, else creates one
		coin := sdk.NewCoin(d.denoms[o.D], bi(o.Amt))
		err = apph.Atomic(d.ctx, func(ctx sdk.Context) error {
			d.h.Ctx = ctx
			d.h.FundAcc(d.owner(o.O), sdk.NewCoins(coin))
			r, e := lkms.LockTokens(ctx, lockuptypes.NewMsgLockTokens(d.owner(o.O), time.Duration(o.Dur), sdk.NewCoins(coin)))
			if e == nil {
				newID = r.ID
			}
			return e
		})
		d.h.Ctx = d.ctx
	case "lockdel":
		coin := sdk.NewCoin(d.denoms[o.D], bi(o.Amt))
		err = apph.Atomic(d.ctx, func(ctx sdk.Context) error {
			d.h.Ctx = ctx
			d.h.FundAcc(d.owner(o.O), sdk.NewCoins(coin))
			r, e := sfms.LockAndSuperfluidDelegate(ctx, &sftypes.MsgLockAndSuperfluidDelegate{Sender: d.owner(o.O).String(), Coins: sdk.NewCoins(coin), ValAddr: d.valAddrStr(o.V)})
			if e == nil {
				newID = r.ID
			}
			return e
		})
		d.h.Ctx = d.ctx
	case "cldel":
		amt := bi(o.Amt)
		err = apph.Atomic(d.ctx, func(ctx sdk.Context) error {
			coins := sdk.NewCoins(sdk.NewCoin(d.bond, amt), sdk.NewCoin("usdc", amt))
			r, e := sfms.CreateFullRangePositionAndSuperfluidDelegate(ctx, &sftypes.MsgCreateFullRangePositionAndSuperfluidDelegate{
				Sender: d.owner(o.O).String(), Coins: coins, ValAddr: d.valAddrStr(o.V), PoolId: d.pools[o.D]})
			if e == nil {
				newID = r.LockID
			}
			return e
		})
	case "topup":
		err = apph.Atomic(d.ctx, func(ctx sdk.Context) error {
			l, e := app.LockupKeeper.GetLockByID(ctx, o.ID)
			if e != nil {
				return e
			}
			coin := sdk.NewCoin(l.Coins[0].Denom, bi(o.Amt))
			d.h.Ctx = ctx
			d.h.FundAcc(d.owner(o.O), sdk.NewCoins(coin))
			_, e = app.LockupKeeper.AddTokensToLockByID(ctx, o.ID, d.owner(o.O), coin)
			return e
		})
		d.h.Ctx = d.ctx
	case "sfdel":
		err = apph.Atomic(d.ctx, func(ctx sdk.Context) error {
			_, e := sfms.SuperfluidDelegate(ctx, &sftypes.MsgSuperfluidDelegate{Sender: d.owner(o.O).String(), LockId: o.ID, ValAddr: d.valAddrStr(o.V)})
			return e
		})
	case "sfundel":
		err = apph.Atomic(d.ctx, func(ctx sdk.Context) error {
			_, e := sfms.SuperfluidUndelegate(ctx, &sftypes.MsgSuperfluidUndelegate{Sender: d.owner(o.O).String(), LockId: o.ID})
			return e
		})
	case "sfunbond":
		err = apph.Atomic(d.ctx, func(ctx sdk.Context) error {
			_, e := sfms.SuperfluidUnbondLock(ctx, &sftypes.MsgSuperfluidUnbondLock{Sender: d.owner(o.O).String(), LockId: o.ID})
			return e
		})
	case "sfundelunbond":
		err = apph.Atomic(d.ctx, func(ctx sdk.Context) error {
			den := d.denoms[0]
			if l, e := app.LockupKeeper.GetLockByID(ctx, o.ID); e == nil && len(l.Coins) == 1 {
				den = l.Coins[0].Denom
			}
			r, e := sfms.SuperfluidUndelegateAndUnbondLock(ctx, &sftypes.MsgSuperfluidUndelegateAndUnbondLock{Sender: d.owner(o.O).String(), LockId: o.ID, Coin: sdk.NewCoin(den, bi(o.Amt))})
			if e == nil {
				newID = r.LockId
			}
			return e
		})
	case "beginunlock":
		err = apph.Atomic(d.ctx, func(ctx sdk.Context) error {
			_, e := lkms.BeginUnlocking(ctx, &lockuptypes.MsgBeginUnlocking{Owner: d.owner(o.O).String(), ID: o.ID})
			return e
		})
	case "beginunlockpartial":
		err = apph.Atomic(d.ctx, func(ctx sdk.Context) error {
			den := d.denoms[0]
			if l, e := app.LockupKeeper.GetLockByID(ctx, o.ID); e == nil && len(l.Coins) == 1 {
				den = l.Coins[0].Denom
			}
			r, e := lkms.BeginUnlocking(ctx, &lockuptypes.MsgBeginUnlocking{Owner: d.owner(o.O).String(), ID: o.ID, Coins: sdk.Coins{sdk.NewCoin(den, bi(o.Amt))}})
			if e == nil {
				newID = r.UnlockingLockID
			}
			return e
		})
	case "beginunlockall":
		err = apph.Atomic(d.ctx, func(ctx sdk.Context) error {
			_, e := lkms.BeginUnlockingAll(ctx, &lockuptypes.MsgBeginUnlockingAll{Owner: d.owner(o.O).String()})
			return e
		})
	case "forceunlock":
		err = apph.Atomic(d.ctx, func(ctx sdk.Context) error {
			_, e := lkms.ForceUnlock(ctx, &lockuptypes.MsgForceUnlock{Owner: d.owner(o.O).String(), ID: o.ID})
			return e
		})
	case "convert":
		// MsgUnbondConvertAndStake: the lock (superfluid bonded, superfluid unbonding or plain) leaves lockup, exits the pool,
		// the proceeds are swapped to OSMO and staked with validator o.V by the owner; the staked amount is reported
		err = apph.Atomic(d.ctx, func(ctx sdk.Context) error {
			den := d.denoms[0]
			if l, e := app.LockupKeeper.GetLockByID(ctx, o.ID); e == nil && len(l.Coins) == 1 {
				den = l.Coins[0].Denom
			}
			r, e := sfms.UnbondConvertAndStake(ctx, &sftypes.MsgUnbondConvertAndStake{LockId: o.ID, Sender: d.owner(o.O).String(), ValAddr: d.valAddrStr(o.V),
				MinAmtToStake: osmomath.ZeroInt(), SharesToConvert: sdk.NewCoin(den, osmomath.ZeroInt())})
			if e == nil {
				newVal = r.TotalAmtStaked.String()
			}
			return e
		})
	case "slash":
		// x/staking Slash of validator o.V by the fraction o.Amt (a Dec raw) at the current height; the superfluid hook
		// BeforeValidatorSlashed slashes the locks behind the validator's intermediary accounts (slash.go)
		ord := []int{}
		for _, a := range app.SuperfluidKeeper.GetAllIntermediaryAccounts(d.ctx) {
			ord = append(ord, d.accIndex(a))
		}
		d.ord = append(d.ord, ord)
		err = apph.Atomic(d.ctx, func(ctx sdk.Context) error {
			val, e := app.StakingKeeper.GetValidator(ctx, d.vals[o.V])
			if e != nil {
				return e
			}
			consAddr, e := val.GetConsAddr()
			if e != nil {
				return e
			}
			power := val.ConsensusPower(app.StakingKeeper.PowerReduction(ctx))
			_, e = app.StakingKeeper.Slash(ctx, consAddr, ctx.BlockHeight(), power, osmomath.NewDecFromBigIntWithPrec(bi(o.Amt).BigInt(), 18))
			return e
		})
	case "withdraw":
		err = apph.Atomic(d.ctx, func(ctx sdk.Context) error {
			return app.LockupKeeper.UnlockMaturedLock(ctx, o.ID)
		})
	case "adv":
		d.ctx = d.ctx.WithBlockTime(d.ctx.BlockTime().Add(time.Duration(o.Dt))).WithBlockHeight(d.ctx.BlockHeight() + 1)
		d.h.Ctx = d.ctx
	case "cleanup":
		// what lockup's EndBlocker does every 120 blocks
		err = apph.Atomic(d.ctx, func(ctx sdk.Context) error {
			app.LockupKeeper.DeleteAllMaturedSyntheticLocks(ctx)
			app.LockupKeeper.WithdrawMaturedLocks(ctx, 1000)
			return nil
		})
	case "epoch":
		ord := []int{}
		err = apph.Atomic(d.ctx, func(ctx sdk.Context) error {
			accs := app.SuperfluidKeeper.GetAllIntermediaryAccounts(ctx)
			for _, a := range accs {
				ord = append(ord, d.accIndex(a))
			}
			if o.Mode == "direct" {
				for i, m := range o.Mults {
					if i < len(d.denoms) && m != "" {
						app.SuperfluidKeeper.SetOsmoEquivalentMultiplier(ctx, 1, d.denoms[i], osmomath.NewDecFromBigIntWithPrec(bi(m).BigInt(), 18))
					}
				}
				app.SuperfluidKeeper.RefreshIntermediaryDelegationAmounts(ctx, accs)
			} else {
				app.SuperfluidKeeper.AfterEpochStartBeginBlock(ctx)
			}
			return nil
		})
		d.ord = append(d.ord, ord)
	case "swap":
		// move the pool's OSMO reserve: dir 0 = OSMO in, dir 1 = OSMO out (exact OSMO amount in / other token in)
		err = apph.Atomic(d.ctx, func(ctx sdk.Context) error {
			d.h.Ctx = ctx
			other := "token0"
			if d.c.Denoms[o.D].Kind == "cl" {
				other = "usdc"
			}
			in, out := d.bond, other
			if o.Dir == 1 {
				in, out = other, d.bond
			}
			coin := sdk.NewCoin(in, bi(o.Amt))
			trader := d.owner(2)
			_, e := app.PoolManagerKeeper.RouteExactAmountIn(ctx, trader, []poolmanagertypes.SwapAmountInRoute{{PoolId: d.pools[o.D], TokenOutDenom: out}}, coin, osmomath.OneInt())
			return e
		})
		d.h.Ctx = d.ctx
	default:
		err = fmt.Errorf("panic: unknown op %s", o.K)
	}
	code := classify(err)
	if code >= 97 {
		d.msgs = append(d.msgs, fmt.Sprintf("%s: %v", o.K, err))
	}
	if newVal == "" {
		newVal = fmt.Sprint(newID)
	}
	return code, newVal
}

func run(t *testing.T, c cs) (o obs) {
	defer func() {
		if r := recover(); r != nil {
			o.Err = fmt.Sprintf("driver panic: %v", r)
		}
	}()
	d := &drv{h: apph.New(t), c: c}
	d.setup(t)
	o.Unb = fmt.Sprint(int64(d.unb))
	o.Flat = append(o.Flat, d.observe(0, "0"))
	inv := sfkeeper.TotalSuperfluidDelegationInvariant(*d.h.App.SuperfluidKeeper)
	for _, x := range c.Ops {
		code, id := d.step(x)
		o.Flat = append(o.Flat, d.observe(code, id))
		_, broken := inv(d.ctx)
		if broken {
			o.Inv = append(o.Inv, 1)
		} else {
			o.Inv = append(o.Inv, 0)
		}
	}
	o.Msgs = d.msgs
	o.Ord = d.ord
	return o
}

var _ = big.NewInt

func TestDriver(t *testing.T) {
	apph.Serve(t, run)
}
