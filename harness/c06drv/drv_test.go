// Package c06drv drives the real x/lockup module (full app) for property C06: one fresh chain per case, a history of
// lockup operations (MsgServer calls run atomically through apph.Atomic, keeper entry points AddTokensToLockByID /
// UnlockMaturedLock / WithdrawMaturedLocks and the module's EndBlocker, block-time advances); after every operation
// the projected observables are printed: result code, last lock id, module and owner balances, every lock by id,
// GetPeriodLocksAccumulation for a list of durations, and every query family of store.go / iterator.go over the
// argument lists given with the operation (ids as sorted lists, coins as per-denom amounts).
package c06drv

import (
	"fmt"
	"sort"
	"strings"
	"testing"
	"time"

	storetypes "cosmossdk.io/store/types"
	sdk "github.com/cosmos/cosmos-sdk/types"

	"github.com/osmosis-labs/osmosis/osmomath"
	"github.com/osmosis-labs/osmosis/v31/x/lockup"
	lockupkeeper "github.com/osmosis-labs/osmosis/v31/x/lockup/keeper"
	lockuptypes "github.com/osmosis-labs/osmosis/v31/x/lockup/types"

	"verifharness/apph"
)

type qspec struct {
	A []int   `json:"a"` // owner indices (1-based)
	N []int   `json:"n"` // denom indices (1-based)
	D []int64 `json:"d"` // durations (ns)
	T []int64 `json:"t"` // timestamps (ns relative to base)
}

type op struct {
	K   string `json:"k"`
	O   int    `json:"o"`
	ID  uint64 `json:"id"`
	N   int    `json:"n"`
	Amt int64  `json:"amt"`
	Dur int64  `json:"dur"`
	T   int64  `json:"t"`
	RR  int    `json:"rr"`
	Cnt int    `json:"cnt"`
	H   int64  `json:"h"`
	Q   *qspec `json:"q"`
}

type glock struct {
	ID  uint64 `json:"id"`
	O   int    `json:"o"`
	N   int    `json:"n"`
	Amt int64  `json:"amt"`
	Dur int64  `json:"dur"`
	End int64  `json:"end"` // relative; 0 = not unlocking
	RR  int    `json:"rr"`  // 0 = ""
}

type genesis struct {
	Last  uint64  `json:"last"`
	Locks []glock `json:"locks"`
}

type cs struct {
	Gen    *genesis  `json:"gen"`    // optional: lockup genesis (SetLastLockID + InitializeAllLocks), module account funded accordingly
	Base   int64     `json:"base"`   // unix ns of relative time 0
	T0     int64     `json:"t0"`     // first block time (relative, > 0)
	Denoms []string  `json:"denoms"` // denom index i (1-based) -> Denoms[i-1]
	NAcc   int       `json:"nacc"`   // number of accounts (1-based indices)
	Fund   [][]int64 `json:"fund"`   // Fund[a-1][n-1]
	Force  []int     `json:"force"`  // accounts on the ForceUnlockAllowedAddresses list
	ADurs  []int64   `json:"adurs"`  // durations for the accumulation observations
	Ops    []op      `json:"ops"`
}

type obs struct {
	Err   string    `json:"err,omitempty"`
	Codes []int     `json:"codes"`
	Hs    []uint64  `json:"hs"`  // digest of the whole observation vector of the operation
	Hs0   []uint64  `json:"hs0"` // digest of its state part only (vector without the query sweep)
	Flat  [][]int64 `json:"flat"`
	Msgs  []string  `json:"msgs,omitempty"`
}

const mask = (uint64(1) << 50) - 1

func mix(h uint64, x int64) uint64 {
	return (h + (h << 5) + (h << 17) + uint64(x) + 1) & mask
}

func classify(err error) int {
	if err == nil {
		return 0
	}
	s := err.Error()
	switch {
	case strings.HasPrefix(s, "panic:"):
		return 13
	case strings.Contains(s, "lockup not found"):
		return 2
	case strings.Contains(s, "not the owner") || strings.Contains(s, "does not match lock owner"):
		return 3
	case strings.Contains(s, "insufficient funds"):
		return 4
	case strings.Contains(s, "exceeds locked tokens"):
		return 5
	case strings.Contains(s, "already unlocking"):
		return 6
	case strings.Contains(s, "hasn't started unlocking"):
		return 7
	case strings.Contains(s, "not unlockable yet"):
		return 8
	case strings.Contains(s, "cannot edit unlocking lockup"):
		return 9
	case strings.Contains(s, "should be greater than the original"):
		return 10
	case strings.Contains(s, "not allowed to force unlock"):
		return 11
	case strings.Contains(s, "reward receiver is the same"):
		return 12
	case strings.Contains(s, "lock with same ID exist"):
		return 14
	}
	return 13
}

type drv struct {
	h      *apph.Helper
	k      *lockupkeeper.Keeper
	c      cs
	addrs  []sdk.AccAddress
	ctx    sdk.Context
	modAcc sdk.AccAddress
}

func (d *drv) addr(i int) sdk.AccAddress {
	if i >= 1 && i <= len(d.addrs) {
		return d.addrs[i-1]
	}
	return sdk.AccAddress([]byte(fmt.Sprintf("c06_unknown_acc_%04d", i)))
}

func (d *drv) denom(i int) string {
	if i >= 1 && i <= len(d.c.Denoms) {
		return d.c.Denoms[i-1]
	}
	return fmt.Sprintf("unknowndenom%d", i)
}

func (d *drv) addrIndex(s string) int64 {
	if s == "" {
		return 0
	}
	for i, a := range d.addrs {
		if a.String() == s {
			return int64(i + 1)
		}
	}
	return 99
}

func (d *drv) denomIndex(s string) int64 {
	for i, n := range d.c.Denoms {
		if n == s {
			return int64(i + 1)
		}
	}
	return 99
}

func (d *drv) tm(rel int64) time.Time {
	if rel == 0 {
		return time.Time{}
	}
	return time.Unix(0, d.c.Base+rel).UTC()
}

func (d *drv) rel(t time.Time) int64 {
	if t.Equal(time.Time{}) {
		return 0
	}
	return t.UnixNano() - d.c.Base
}

func (d *drv) coins(n int, amt int64) sdk.Coins {
	if amt == 0 {
		return sdk.Coins{}
	}
	return sdk.Coins{sdk.NewInt64Coin(d.denom(n), amt)}
}

func idsOfLocks(ls []lockuptypes.PeriodLock) []int64 {
	out := make([]int64, 0, len(ls))
	for _, l := range ls {
		out = append(out, int64(l.ID))
	}
	sort.Slice(out, func(i, j int) bool { return out[i] < out[j] })
	return out
}

func idsOfIter(it storetypes.Iterator) []int64 {
	defer it.Close()
	out := []int64{}
	for ; it.Valid(); it.Next() {
		out = append(out, int64(sdk.BigEndianToUint64(it.Value())))
	}
	sort.Slice(out, func(i, j int) bool { return out[i] < out[j] })
	return out
}

func (d *drv) amounts(cs sdk.Coins) []int64 {
	out := make([]int64, len(d.c.Denoms)+1)
	for _, c := range cs {
		i := d.denomIndex(c.Denom)
		if i == 99 {
			out[len(d.c.Denoms)] += 1
			continue
		}
		out[i-1] = c.Amount.Int64()
	}
	return out
}

// family: name, signature over U (unlocking flag, false then true), A (account), N (denom), D (duration), T (time)
type family struct {
	name string
	sig  string
	ids  func(d *drv, u bool, a sdk.AccAddress, n string, dur time.Duration, t time.Time) []int64
	raw  func(d *drv, u bool, a sdk.AccAddress, n string, dur time.Duration, t time.Time) []int64 // fixed-width result (coins, flags)
}

func families() []family {
	I := func(f func(d *drv, u bool, a sdk.AccAddress, n string, dur time.Duration, t time.Time) storetypes.Iterator) func(d *drv, u bool, a sdk.AccAddress, n string, dur time.Duration, t time.Time) []int64 {
		return func(d *drv, u bool, a sdk.AccAddress, n string, dur time.Duration, t time.Time) []int64 {
			return idsOfIter(f(d, u, a, n, dur, t))
		}
	}
	L := func(f func(d *drv, u bool, a sdk.AccAddress, n string, dur time.Duration, t time.Time) []lockuptypes.PeriodLock) func(d *drv, u bool, a sdk.AccAddress, n string, dur time.Duration, t time.Time) []int64 {
		return func(d *drv, u bool, a sdk.AccAddress, n string, dur time.Duration, t time.Time) []int64 {
			return idsOfLocks(f(d, u, a, n, dur, t))
		}
	}
	type A = sdk.AccAddress
	type D = time.Duration
	type T = time.Time
	type It = storetypes.Iterator
	type PL = []lockuptypes.PeriodLock
	return []family{
		{name: "LockIteratorAfterTime", sig: "T", ids: I(func(d *drv, u bool, a A, n string, dur D, t T) It { return d.k.LockIteratorAfterTime(d.ctx, t) })},
		{name: "LockIteratorBeforeTime", sig: "T", ids: I(func(d *drv, u bool, a A, n string, dur D, t T) It { return d.k.LockIteratorBeforeTime(d.ctx, t) })},
		{name: "LockIterator", sig: "U", ids: I(func(d *drv, u bool, a A, n string, dur D, t T) It { return d.k.LockIterator(d.ctx, u) })},
		{name: "LockIteratorAfterTimeDenom", sig: "NT", ids: I(func(d *drv, u bool, a A, n string, dur D, t T) It { return d.k.LockIteratorAfterTimeDenom(d.ctx, n, t) })},
		{name: "LockIteratorBeforeTimeDenom", sig: "NT", ids: I(func(d *drv, u bool, a A, n string, dur D, t T) It { return d.k.LockIteratorBeforeTimeDenom(d.ctx, n, t) })},
		{name: "LockIteratorLongerThanDurationDenom", sig: "UND", ids: I(func(d *drv, u bool, a A, n string, dur D, t T) It {
			return d.k.LockIteratorLongerThanDurationDenom(d.ctx, u, n, dur)
		})},
		{name: "LockIteratorDenom", sig: "UN", ids: I(func(d *drv, u bool, a A, n string, dur D, t T) It { return d.k.LockIteratorDenom(d.ctx, u, n) })},
		{name: "AccountLockIteratorAfterTime", sig: "AT", ids: I(func(d *drv, u bool, a A, n string, dur D, t T) It { return d.k.AccountLockIteratorAfterTime(d.ctx, a, t) })},
		{name: "AccountLockIteratorBeforeTime", sig: "AT", ids: I(func(d *drv, u bool, a A, n string, dur D, t T) It { return d.k.AccountLockIteratorBeforeTime(d.ctx, a, t) })},
		{name: "AccountLockIterator", sig: "UA", ids: I(func(d *drv, u bool, a A, n string, dur D, t T) It { return d.k.AccountLockIterator(d.ctx, u, a) })},
		{name: "AccountLockIteratorAfterTimeDenom", sig: "ANT", ids: I(func(d *drv, u bool, a A, n string, dur D, t T) It {
			return d.k.AccountLockIteratorAfterTimeDenom(d.ctx, a, n, t)
		})},
		{name: "AccountLockIteratorBeforeTimeDenom", sig: "ANT", ids: I(func(d *drv, u bool, a A, n string, dur D, t T) It {
			return d.k.AccountLockIteratorBeforeTimeDenom(d.ctx, a, n, t)
		})},
		{name: "AccountLockIteratorDenom", sig: "UAN", ids: I(func(d *drv, u bool, a A, n string, dur D, t T) It { return d.k.AccountLockIteratorDenom(d.ctx, u, a, n) })},
		{name: "AccountLockIteratorLongerDuration", sig: "UAD", ids: I(func(d *drv, u bool, a A, n string, dur D, t T) It {
			return d.k.AccountLockIteratorLongerDuration(d.ctx, u, a, dur)
		})},
		{name: "AccountLockIteratorDuration", sig: "UAD", ids: I(func(d *drv, u bool, a A, n string, dur D, t T) It {
			return d.k.AccountLockIteratorDuration(d.ctx, u, a, dur)
		})},
		{name: "AccountLockIteratorShorterThanDuration", sig: "UAD", ids: I(func(d *drv, u bool, a A, n string, dur D, t T) It {
			return d.k.AccountLockIteratorShorterThanDuration(d.ctx, u, a, dur)
		})},
		{name: "AccountLockIteratorLongerDurationDenom", sig: "UAND", ids: I(func(d *drv, u bool, a A, n string, dur D, t T) It {
			return d.k.AccountLockIteratorLongerDurationDenom(d.ctx, u, a, n, dur)
		})},
		{name: "AccountLockIteratorDurationDenom", sig: "UAND", ids: I(func(d *drv, u bool, a A, n string, dur D, t T) It {
			return d.k.AccountLockIteratorDurationDenom(d.ctx, u, a, n, dur)
		})},
		// store.go
		{name: "GetAccountUnlockableCoins", sig: "A", raw: func(d *drv, u bool, a A, n string, dur D, t T) []int64 { return d.amounts(d.k.GetAccountUnlockableCoins(d.ctx, a)) }},
		{name: "GetAccountUnlockingCoins", sig: "A", raw: func(d *drv, u bool, a A, n string, dur D, t T) []int64 { return d.amounts(d.k.GetAccountUnlockingCoins(d.ctx, a)) }},
		{name: "GetAccountLockedCoins", sig: "A", raw: func(d *drv, u bool, a A, n string, dur D, t T) []int64 { return d.amounts(d.k.GetAccountLockedCoins(d.ctx, a)) }},
		{name: "GetAccountLockedPastTime", sig: "AT", ids: L(func(d *drv, u bool, a A, n string, dur D, t T) PL { return d.k.GetAccountLockedPastTime(d.ctx, a, t) })},
		{name: "GetAccountLockedPastTimeNotUnlockingOnly", sig: "AT", ids: L(func(d *drv, u bool, a A, n string, dur D, t T) PL {
			return d.k.GetAccountLockedPastTimeNotUnlockingOnly(d.ctx, a, t)
		})},
		{name: "GetAccountUnlockedBeforeTime", sig: "AT", ids: L(func(d *drv, u bool, a A, n string, dur D, t T) PL { return d.k.GetAccountUnlockedBeforeTime(d.ctx, a, t) })},
		{name: "GetAccountLockedPastTimeDenom", sig: "ANT", ids: L(func(d *drv, u bool, a A, n string, dur D, t T) PL { return d.k.GetAccountLockedPastTimeDenom(d.ctx, a, n, t) })},
		{name: "GetAccountLockedDurationNotUnlockingOnly", sig: "AND", ids: L(func(d *drv, u bool, a A, n string, dur D, t T) PL {
			return d.k.GetAccountLockedDurationNotUnlockingOnly(d.ctx, a, n, dur)
		})},
		{name: "GetAccountLockedLongerDuration", sig: "AD", ids: L(func(d *drv, u bool, a A, n string, dur D, t T) PL { return d.k.GetAccountLockedLongerDuration(d.ctx, a, dur) })},
		{name: "GetAccountLockedDuration", sig: "AD", ids: L(func(d *drv, u bool, a A, n string, dur D, t T) PL { return d.k.GetAccountLockedDuration(d.ctx, a, dur) })},
		{name: "GetAccountLockedLongerDurationNotUnlockingOnly", sig: "AD", ids: L(func(d *drv, u bool, a A, n string, dur D, t T) PL {
			return d.k.GetAccountLockedLongerDurationNotUnlockingOnly(d.ctx, a, dur)
		})},
		{name: "GetAccountLockedLongerDurationDenom", sig: "AND", ids: L(func(d *drv, u bool, a A, n string, dur D, t T) PL {
			return d.k.GetAccountLockedLongerDurationDenom(d.ctx, a, n, dur)
		})},
		{name: "GetAccountLockedLongerDurationDenomNotUnlockingOnly", sig: "AND", ids: L(func(d *drv, u bool, a A, n string, dur D, t T) PL {
			return d.k.GetAccountLockedLongerDurationDenomNotUnlockingOnly(d.ctx, a, n, dur)
		})},
		{name: "GetLocksPastTimeDenom", sig: "NT", ids: L(func(d *drv, u bool, a A, n string, dur D, t T) PL { return d.k.GetLocksPastTimeDenom(d.ctx, n, t) })},
		{name: "GetLocksDenom", sig: "N", ids: L(func(d *drv, u bool, a A, n string, dur D, t T) PL { return d.k.GetLocksDenom(d.ctx, n) })},
		{name: "GetLocksLongerThanDurationDenom", sig: "ND", ids: L(func(d *drv, u bool, a A, n string, dur D, t T) PL { return d.k.GetLocksLongerThanDurationDenom(d.ctx, n, dur) })},
		{name: "GetPeriodLocks", sig: "", ids: L(func(d *drv, u bool, a A, n string, dur D, t T) PL {
			ls, err := d.k.GetPeriodLocks(d.ctx)
			if err != nil {
				panic(err)
			}
			return ls
		})},
		{name: "GetAccountPeriodLocks", sig: "A", ids: L(func(d *drv, u bool, a A, n string, dur D, t T) PL { return d.k.GetAccountPeriodLocks(d.ctx, a) })},
		{name: "GetModuleLockedCoins", sig: "", raw: func(d *drv, u bool, a A, n string, dur D, t T) []int64 { return d.amounts(d.k.GetModuleLockedCoins(d.ctx)) }},
		{name: "HasLock", sig: "AND", raw: func(d *drv, u bool, a A, n string, dur D, t T) []int64 {
			if d.k.HasLock(d.ctx, a, n, dur) {
				return []int64{1}
			}
			return []int64{0}
		}},
		{name: "GetLockedDenom", sig: "ND", raw: func(d *drv, u bool, a A, n string, dur D, t T) []int64 {
			return []int64{d.k.GetLockedDenom(d.ctx, n, dur).Int64()}
		}},
	}
}

var fams = families()

func (d *drv) sweep(q *qspec, out []int64) []int64 {
	if q == nil {
		return out
	}
	for _, f := range fams {
		us := []bool{false}
		as := []int{0}
		ns := []int{0}
		ds := []int64{0}
		ts := []int64{0}
		if strings.Contains(f.sig, "U") {
			us = []bool{false, true}
		}
		if strings.Contains(f.sig, "A") {
			as = q.A
		}
		if strings.Contains(f.sig, "N") {
			ns = q.N
		}
		if strings.Contains(f.sig, "D") {
			ds = q.D
		}
		if strings.Contains(f.sig, "T") {
			ts = q.T
		}
		for _, u := range us {
			for _, a := range as {
				for _, n := range ns {
					for _, du := range ds {
						for _, t := range ts {
							var addr sdk.AccAddress
							var dn string
							if a != 0 {
								addr = d.addr(a)
							}
							if n != 0 {
								dn = d.denom(n)
							}
							if f.ids != nil {
								r := f.ids(d, u, addr, dn, time.Duration(du), d.tm(t))
								out = append(out, int64(len(r)))
								out = append(out, r...)
							} else {
								out = append(out, f.raw(d, u, addr, dn, time.Duration(du), d.tm(t))...)
							}
						}
					}
				}
			}
		}
	}
	return out
}

func (d *drv) state(out []int64) []int64 {
	last := d.k.GetLastLockID(d.ctx)
	out = append(out, int64(last))
	for n := 1; n <= len(d.c.Denoms); n++ {
		out = append(out, d.h.App.BankKeeper.GetBalance(d.ctx, d.modAcc, d.denom(n)).Amount.Int64())
	}
	// any other denomination on the module account would be a leak
	out = append(out, int64(len(d.k.GetModuleBalance(d.ctx))))
	for a := 1; a <= d.c.NAcc; a++ {
		for n := 1; n <= len(d.c.Denoms); n++ {
			out = append(out, d.h.App.BankKeeper.GetBalance(d.ctx, d.addr(a), d.denom(n)).Amount.Int64())
		}
	}
	for id := uint64(1); id <= last+1; id++ {
		l, err := d.k.GetLockByID(d.ctx, id)
		if err != nil {
			out = append(out, 0)
			continue
		}
		if len(l.Coins) != 1 {
			out = append(out, 9, int64(len(l.Coins)))
			continue
		}
		rr, err := d.k.GetLockRewardReceiver(d.ctx, id)
		if err != nil {
			rr = "?"
		}
		out = append(out, 1, d.addrIndex(l.Owner), d.denomIndex(l.Coins[0].Denom), l.Coins[0].Amount.Int64(), int64(l.Duration), d.rel(l.EndTime),
			d.addrIndex(l.RewardReceiverAddress), d.addrIndex(rr))
	}
	for n := 0; n <= len(d.c.Denoms); n++ {
		dn := ""
		if n > 0 {
			dn = d.denom(n)
		}
		for _, du := range d.c.ADurs {
			v := d.k.GetPeriodLocksAccumulation(d.ctx, lockuptypes.QueryCondition{LockQueryType: lockuptypes.ByDuration, Denom: dn, Duration: time.Duration(du)})
			out = append(out, v.Int64())
		}
	}
	return out
}

func (d *drv) apply(o op) error {
	ms := lockupkeeper.NewMsgServerImpl(d.k)
	switch o.K {
	case "time":
		if o.T < d.rel(d.ctx.BlockTime()) {
			return errInvalid
		}
		d.ctx = d.ctx.WithBlockTime(d.tm(o.T))
		return nil
	case "lock":
		if o.Amt < 0 {
			return errInvalid
		}
		msg := lockuptypes.NewMsgLockTokens(d.addr(o.O), time.Duration(o.Dur), d.coins(o.N, o.Amt))
		if msg.ValidateBasic() != nil {
			return errInvalid
		}
		return apph.Atomic(d.ctx, func(ctx sdk.Context) error { _, err := ms.LockTokens(ctx, msg); return err })
	case "add":
		if o.Amt < 0 {
			return errInvalid
		}
		return apph.Atomic(d.ctx, func(ctx sdk.Context) error {
			l, err := d.k.GetLockByID(ctx, o.ID)
			dn := d.denom(1)
			if err == nil && len(l.Coins) == 1 {
				dn = l.Coins[0].Denom
			}
			_, err = d.k.AddTokensToLockByID(ctx, o.ID, d.addr(o.O), sdk.NewCoin(dn, osmomath.NewInt(o.Amt)))
			return err
		})
	case "extend":
		msg := lockuptypes.NewMsgExtendLockup(d.addr(o.O), o.ID, time.Duration(o.Dur))
		if msg.ValidateBasic() != nil {
			return errInvalid
		}
		return apph.Atomic(d.ctx, func(ctx sdk.Context) error { _, err := ms.ExtendLockup(ctx, msg); return err })
	case "begin":
		if o.Amt < 0 {
			return errInvalid
		}
		msg := lockuptypes.NewMsgBeginUnlocking(d.addr(o.O), o.ID, d.coins(o.N, o.Amt))
		if msg.ValidateBasic() != nil {
			return errInvalid
		}
		return apph.Atomic(d.ctx, func(ctx sdk.Context) error { _, err := ms.BeginUnlocking(ctx, msg); return err })
	case "beginall":
		msg := lockuptypes.NewMsgBeginUnlockingAll(d.addr(o.O))
		if msg.ValidateBasic() != nil {
			return errInvalid
		}
		return apph.Atomic(d.ctx, func(ctx sdk.Context) error { _, err := ms.BeginUnlockingAll(ctx, msg); return err })
	case "rebuild":
		return apph.Atomic(d.ctx, func(ctx sdk.Context) error { d.k.RebuildAccumulationStoreForDenom(ctx, d.denom(o.N)); return nil })
	case "unlock":
		return apph.Atomic(d.ctx, func(ctx sdk.Context) error { return d.k.UnlockMaturedLock(ctx, o.ID) })
	case "withdraw":
		return apph.Atomic(d.ctx, func(ctx sdk.Context) error { d.k.WithdrawMaturedLocks(ctx, o.Cnt); return nil })
	case "endblock":
		return apph.Atomic(d.ctx, func(ctx sdk.Context) error { lockup.EndBlocker(ctx.WithBlockHeight(o.H), *d.k); return nil })
	case "setrr":
		msg := lockuptypes.NewMsgSetRewardReceiverAddress(d.addr(o.O), d.addr(o.RR), o.ID)
		if msg.ValidateBasic() != nil {
			return errInvalid
		}
		return apph.Atomic(d.ctx, func(ctx sdk.Context) error { _, err := ms.SetRewardReceiverAddress(ctx, msg); return err })
	case "force":
		if o.Amt < 0 {
			return errInvalid
		}
		msg := lockuptypes.NewMsgForceUnlock(d.addr(o.O), o.ID, d.coins(o.N, o.Amt))
		if msg.ValidateBasic() != nil {
			return errInvalid
		}
		return apph.Atomic(d.ctx, func(ctx sdk.Context) error { _, err := ms.ForceUnlock(ctx, msg); return err })
	}
	return fmt.Errorf("driver: unknown op %q", o.K)
}

var errInvalid = fmt.Errorf("driver: ValidateBasic failed")

func run(t *testing.T, c cs) (res obs) {
	defer func() {
		if r := recover(); r != nil {
			res.Err = fmt.Sprintf("driver panic: %v", r)
		}
	}()
	h := apph.New(t)
	d := &drv{h: h, k: h.App.LockupKeeper, c: c}
	for i := 1; i <= c.NAcc; i++ {
		d.addrs = append(d.addrs, sdk.AccAddress([]byte(fmt.Sprintf("c06_test_account_%03d", i))))
	}
	d.modAcc = h.App.AccountKeeper.GetModuleAddress(lockuptypes.ModuleName)
	d.ctx = h.Ctx.WithBlockTime(d.tm(c.T0))
	allowed := []string{}
	for _, a := range c.Force {
		allowed = append(allowed, d.addr(a).String())
	}
	d.k.SetParams(d.ctx, lockuptypes.Params{ForceUnlockAllowedAddresses: allowed})
	for a := 1; a <= c.NAcc; a++ {
		cs := sdk.Coins{}
		for n := 1; n <= len(c.Denoms); n++ {
			if c.Fund[a-1][n-1] > 0 {
				cs = cs.Add(sdk.NewInt64Coin(d.denom(n), c.Fund[a-1][n-1]))
			}
		}
		if !cs.Empty() {
			h.Ctx = d.ctx
			h.FundAcc(d.addr(a), cs)
		}
	}
	if c.Gen != nil {
		// what the chain's InitGenesis does for the lockup module: bank balances of the module account, then
		// keeper.InitGenesis = SetLastLockID + InitializeAllLocks
		locks := []lockuptypes.PeriodLock{}
		tot := sdk.Coins{}
		for _, g := range c.Gen.Locks {
			coins := sdk.Coins{sdk.NewInt64Coin(d.denom(g.N), g.Amt)}
			rr := ""
			if g.RR != 0 {
				rr = d.addr(g.RR).String()
			}
			locks = append(locks, lockuptypes.NewPeriodLock(g.ID, d.addr(g.O), rr, time.Duration(g.Dur), d.tm(g.End), coins))
			tot = tot.Add(coins...)
		}
		if !tot.Empty() {
			h.Ctx = d.ctx
			h.FundModuleAcc(lockuptypes.ModuleName, tot)
		}
		d.k.SetLastLockID(d.ctx, c.Gen.Last)
		if err := d.k.InitializeAllLocks(d.ctx, locks); err != nil {
			res.Err = "InitializeAllLocks: " + err.Error()
			return res
		}
	}
	for _, o := range c.Ops {
		err := d.apply(o)
		code := classify(err)
		if err == errInvalid {
			code = 1
		}
		if code == 13 || (err != nil && strings.HasPrefix(err.Error(), "driver:") && err != errInvalid) {
			res.Msgs = append(res.Msgs, err.Error())
		}
		flat := make([]int64, 0, 256)
		flat = append(flat, d.rel(d.ctx.BlockTime()))
		flat = d.state(flat)
		hh := uint64(0)
		for _, x := range flat {
			hh = mix(hh, x)
		}
		res.Hs0 = append(res.Hs0, hh)
		ns := len(flat)
		flat = d.sweep(o.Q, flat)
		for _, x := range flat[ns:] {
			hh = mix(hh, x)
		}
		res.Codes = append(res.Codes, code)
		res.Hs = append(res.Hs, hh)
		res.Flat = append(res.Flat, flat)
	}
	return res
}

func TestDriver(t *testing.T) {
	apph.Serve(t, run)
}
