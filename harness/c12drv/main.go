// c12drv runs the real osmomath fixed-point code (BigDec, BigInt, the aliased SDK LegacyDec) on
// cases read from stdin (one JSON case per line) and prints one JSON observation per case.
//
// case:  {"op": "<Type>.<Method>", "a": "<receiver raw mantissa>", "b": "<argument raw value>",
//         "k": <small integer parameter>, "alias": <bool: pass the receiver itself as argument>,
//         "t": "<text for parser ops>"}
// obs:   {"p": panic/err enum, "r": result raw value, "a": receiver raw value after the call,
//         "b": argument raw value after the call, "ra": 1 iff the result shares storage with the receiver,
//         "s": [texts]...}
// Raw values are decimal strings of the big.Int mantissa (BigDec: value*10^36, Dec: value*10^18).
package main

import (
	"bufio"
	"encoding/json"
	"fmt"
	"math/big"
	"os"
	"strings"

	"github.com/osmosis-labs/osmosis/osmomath"
)

type tcase struct {
	Op    string `json:"op"`
	A     string `json:"a"`
	B     string `json:"b"`
	K     int64  `json:"k"`
	Alias bool   `json:"alias"`
	T     string `json:"t"`
}

type obs struct {
	P  int      `json:"p"`
	R  string   `json:"r"`
	A  string   `json:"a"`
	B  string   `json:"b"`
	RA int      `json:"ra"`
	S  []string `json:"s,omitempty"`
	PS []int    `json:"ps,omitempty"`
	RS []string `json:"rs,omitempty"`
	E  string   `json:"e,omitempty"`
}

const (
	pNone     = 0
	pOverflow = 1
	pDivZero  = 2
	pPrec     = 3
	pParse    = 4
	pNil      = 5
	pOther    = 9
)

func classify(rec interface{}) int {
	s := strings.ToLower(fmt.Sprint(rec))
	switch {
	case strings.Contains(s, "division by zero"), strings.Contains(s, "division-by-zero"), strings.Contains(s, "div by zero"):
		return pDivZero
	case strings.Contains(s, "overflow"), strings.Contains(s, "out of bound"):
		return pOverflow
	case strings.Contains(s, "precision"):
		return pPrec
	}
	return pOther
}

func bi(s string) *big.Int {
	if s == "" {
		return new(big.Int)
	}
	z, ok := new(big.Int).SetString(s, 10)
	if !ok {
		panic("driver: bad integer " + s)
	}
	return z
}

func mkBD(z *big.Int) osmomath.BigDec { return osmomath.NewBigDecFromBigIntWithPrec(z, osmomath.BigDecPrecision) }
func mkD(z *big.Int) osmomath.Dec     { return osmomath.NewDecFromBigIntWithPrec(z, osmomath.DecPrecision) }

type ctx struct {
	recv *big.Int // storage of the receiver (nil when the receiver is not a heap value)
	arg  *big.Int // storage of the argument
	res  *big.Int
	o    *obs
}

func (c *ctx) setBD(r osmomath.BigDec) { c.res = r.BigIntMut() }
func (c *ctx) setD(r osmomath.Dec)     { c.res = r.BigIntMut() }
func (c *ctx) setBI(r osmomath.BigInt) { c.res = r.BigInt() }
func (c *ctx) setI(r osmomath.Int)     { c.res = r.BigInt() }
func (c *ctx) setI64(r int64)          { c.res = big.NewInt(r) }
func (c *ctx) setBool(r bool) {
	if r {
		c.res = big.NewInt(1)
	} else {
		c.res = big.NewInt(0)
	}
}

func run(tc tcase) (o obs) {
	c := &ctx{o: &o}
	a, b := bi(tc.A), bi(tc.B)
	defer func() {
		if rec := recover(); rec != nil {
			o.P = classify(rec)
			o.E = fmt.Sprint(rec)
			if len(o.E) > 80 {
				o.E = o.E[:80]
			}
			o.R = "0"
		} else if c.res != nil {
			o.R = c.res.String()
			if c.recv != nil && c.res == c.recv {
				o.RA = 1
			}
		} else {
			o.R = "0"
		}
		if c.recv != nil {
			o.A = c.recv.String()
		} else {
			o.A = a.String()
		}
		if c.arg != nil {
			o.B = c.arg.String()
		} else {
			o.B = b.String()
		}
	}()
	parts := strings.SplitN(tc.Op, ".", 2)
	typ, m := parts[0], parts[1]
	switch typ {
	case "BD":
		runBD(c, m, a, b, tc)
	case "D":
		runD(c, m, a, b, tc)
	case "BI":
		runBI(c, m, a, b, tc)
	case "F":
		runF(c, m, a, b, tc)
	default:
		panic("driver: unknown op type " + typ)
	}
	return o
}

func runBD(c *ctx, m string, a, b *big.Int, tc tcase) {
	x := mkBD(a)
	c.recv = x.BigIntMut()
	// argument kinds
	argBD := func() osmomath.BigDec {
		if tc.Alias {
			c.arg = c.recv
			return x
		}
		y := mkBD(b)
		c.arg = y.BigIntMut()
		return y
	}
	argD := func() osmomath.Dec {
		y := mkD(b)
		c.arg = y.BigIntMut()
		return y
	}
	argBI := func() osmomath.BigInt { return osmomath.NewBigIntFromBigInt(new(big.Int).Set(b)) }
	switch m {
	case "Add":
		c.setBD(x.Add(argBD()))
	case "AddMut":
		c.setBD(x.AddMut(argBD()))
	case "Sub":
		c.setBD(x.Sub(argBD()))
	case "SubMut":
		c.setBD(x.SubMut(argBD()))
	case "Neg":
		c.setBD(x.Neg())
	case "NegMut":
		c.setBD(x.NegMut())
	case "Abs":
		c.setBD(x.Abs())
	case "AbsMut":
		c.setBD(x.AbsMut())
	case "Clone":
		c.setBD(x.Clone())
	case "Mul":
		c.setBD(x.Mul(argBD()))
	case "MulMut":
		c.setBD(x.MulMut(argBD()))
	case "MulDec":
		c.setBD(x.MulDec(argD()))
	case "MulDecMut":
		c.setBD(x.MulDecMut(argD()))
	case "MulTruncate":
		c.setBD(x.MulTruncate(argBD()))
	case "MulTruncateDec":
		c.setBD(x.MulTruncateDec(argD()))
	case "MulRoundUp":
		c.setBD(x.MulRoundUp(argBD()))
	case "MulRoundUpDec":
		c.setBD(x.MulRoundUpDec(argD()))
	case "MulInt":
		c.setBD(x.MulInt(argBI()))
	case "MulInt64":
		c.setBD(x.MulInt64(b.Int64()))
	case "Quo":
		c.setBD(x.Quo(argBD()))
	case "QuoMut":
		c.setBD(x.QuoMut(argBD()))
	case "QuoRaw":
		c.setBD(x.QuoRaw(b.Int64()))
	case "QuoTruncate":
		c.setBD(x.QuoTruncate(argBD()))
	case "QuoTruncateMut":
		c.setBD(x.QuoTruncateMut(argBD()))
	case "QuoTruncateDec":
		c.setBD(x.QuoTruncateDec(argD()))
	case "QuoTruncateDecMut":
		c.setBD(x.QuoTruncateDecMut(argD()))
	case "QuoRoundUp":
		c.setBD(x.QuoRoundUp(argBD()))
	case "QuoByDecRoundUp":
		c.setBD(x.QuoByDecRoundUp(argD()))
	case "QuoRoundUpMut":
		c.setBD(x.QuoRoundUpMut(argBD()))
	case "QuoRoundUpNextIntMut":
		c.setBD(x.QuoRoundUpNextIntMut(argBD()))
	case "QuoInt":
		c.setBD(x.QuoInt(argBI()))
	case "QuoInt64":
		c.setBD(x.QuoInt64(b.Int64()))
	case "Ceil":
		c.setBD(x.Ceil())
	case "CeilMut":
		c.setBD(x.CeilMut())
	case "TruncateInt":
		c.setBI(x.TruncateInt())
	case "TruncateInt64":
		c.setI64(x.TruncateInt64())
	case "TruncateDec":
		c.setBD(x.TruncateDec())
	case "RoundInt":
		c.setBI(x.RoundInt())
	case "RoundInt64":
		c.setI64(x.RoundInt64())
	case "Dec":
		c.setD(x.Dec())
	case "DecRoundUp":
		c.setD(x.DecRoundUp())
	case "DecWithPrecision":
		c.setD(x.DecWithPrecision(uint64(tc.K)))
	case "ChopPrecision":
		c.setBD(x.ChopPrecision(uint64(tc.K)))
	case "ChopPrecisionMut":
		c.setBD(x.ChopPrecisionMut(uint64(tc.K)))
	case "PowerInteger":
		c.setBD(x.PowerInteger(uint64(tc.K)))
	case "PowerIntegerMut":
		c.setBD(x.PowerIntegerMut(uint64(tc.K)))
	case "IsInteger":
		c.setBool(x.IsInteger())
	case "Cmp": // the six comparisons + sign tests packed into one integer
		y := argBD()
		v := int64(0)
		for i, t := range []bool{x.Equal(y), x.GT(y), x.GTE(y), x.LT(y), x.LTE(y), x.IsZero(), x.IsNegative(), x.IsPositive()} {
			if t {
				v |= 1 << uint(i)
			}
		}
		c.setI64(v)
	case "Min":
		c.setBD(osmomath.MinBigDec(x, argBD()))
	case "Max":
		c.setBD(osmomath.MaxBigDec(x, argBD()))
	default:
		panic("driver: unknown BD op " + m)
	}
}

func runD(c *ctx, m string, a, b *big.Int, tc tcase) {
	x := mkD(a)
	c.recv = x.BigIntMut()
	argD := func() osmomath.Dec {
		if tc.Alias {
			c.arg = c.recv
			return x
		}
		y := mkD(b)
		c.arg = y.BigIntMut()
		return y
	}
	argI := func() osmomath.Int { return osmomath.NewIntFromBigInt(b) }
	switch m {
	case "Add":
		c.setD(x.Add(argD()))
	case "AddMut":
		c.setD(x.AddMut(argD()))
	case "Sub":
		c.setD(x.Sub(argD()))
	case "SubMut":
		c.setD(x.SubMut(argD()))
	case "Neg":
		c.setD(x.Neg())
	case "NegMut":
		c.setD(x.NegMut())
	case "Abs":
		c.setD(x.Abs())
	case "AbsMut":
		c.setD(x.AbsMut())
	case "Mul":
		c.setD(x.Mul(argD()))
	case "MulMut":
		c.setD(x.MulMut(argD()))
	case "MulTruncate":
		c.setD(x.MulTruncate(argD()))
	case "MulTruncateMut":
		c.setD(x.MulTruncateMut(argD()))
	case "MulRoundUp":
		c.setD(x.MulRoundUp(argD()))
	case "MulRoundUpMut":
		c.setD(x.MulRoundUpMut(argD()))
	case "MulInt":
		c.setD(x.MulInt(argI()))
	case "MulIntMut":
		c.setD(x.MulIntMut(argI()))
	case "MulInt64":
		c.setD(x.MulInt64(b.Int64()))
	case "MulInt64Mut":
		c.setD(x.MulInt64Mut(b.Int64()))
	case "Quo":
		c.setD(x.Quo(argD()))
	case "QuoMut":
		c.setD(x.QuoMut(argD()))
	case "QuoTruncate":
		c.setD(x.QuoTruncate(argD()))
	case "QuoTruncateMut":
		c.setD(x.QuoTruncateMut(argD()))
	case "QuoRoundUp":
		c.setD(x.QuoRoundUp(argD()))
	case "QuoRoundupMut":
		c.setD(x.QuoRoundupMut(argD()))
	case "QuoInt":
		c.setD(x.QuoInt(argI()))
	case "QuoIntMut":
		c.setD(x.QuoIntMut(argI()))
	case "QuoInt64":
		c.setD(x.QuoInt64(b.Int64()))
	case "QuoInt64Mut":
		c.setD(x.QuoInt64Mut(b.Int64()))
	case "Ceil":
		c.setD(x.Ceil())
	case "RoundInt":
		c.setI(x.RoundInt())
	case "RoundInt64":
		c.setI64(x.RoundInt64())
	case "TruncateInt":
		c.setI(x.TruncateInt())
	case "TruncateInt64":
		c.setI64(x.TruncateInt64())
	case "TruncateDec":
		c.setD(x.TruncateDec())
	case "Power":
		c.setD(x.Power(uint64(tc.K)))
	case "PowerMut":
		c.setD(x.PowerMut(uint64(tc.K)))
	case "IsInteger":
		c.setBool(x.IsInteger())
	case "ToBigDec":
		c.setBD(osmomath.BigDecFromDec(x))
	case "ToBigDecMut":
		c.setBD(osmomath.BigDecFromDecMut(x))
	case "MulDecToBigDec":
		c.setBD(osmomath.NewBigDecFromDecMulDec(x, argD()))
	case "SigFigRound":
		c.setD(osmomath.SigFigRound(x, argI()))
	default:
		panic("driver: unknown D op " + m)
	}
}

func runBI(c *ctx, m string, a, b *big.Int, tc tcase) {
	store := new(big.Int).Set(a)
	x := osmomath.NewBigIntFromBigInt(store) // shares storage with `store`
	c.recv = store
	argBI := func() osmomath.BigInt {
		if tc.Alias {
			c.arg = store
			return x
		}
		s2 := new(big.Int).Set(b)
		c.arg = s2
		return osmomath.NewBigIntFromBigInt(s2)
	}
	switch m {
	case "New":
		c.setBI(x)
	case "Add":
		c.setBI(x.Add(argBI()))
	case "AddRaw":
		c.setBI(x.AddRaw(b.Int64()))
	case "Sub":
		c.setBI(x.Sub(argBI()))
	case "SubRaw":
		c.setBI(x.SubRaw(b.Int64()))
	case "Mul":
		c.setBI(x.Mul(argBI()))
	case "MulRaw":
		c.setBI(x.MulRaw(b.Int64()))
	case "Quo":
		c.setBI(x.Quo(argBI()))
	case "QuoRaw":
		c.setBI(x.QuoRaw(b.Int64()))
	case "Mod":
		c.setBI(x.Mod(argBI()))
	case "ModRaw":
		c.setBI(x.ModRaw(b.Int64()))
	case "Neg":
		c.setBI(x.Neg())
	case "Abs":
		c.setBI(x.Abs())
	case "Min":
		c.setBI(osmomath.MinBigInt(x, argBI()))
	case "Max":
		c.setBI(osmomath.MaxBigInt(x, argBI()))
	case "ToDec":
		c.setBD(x.ToDec())
	case "Int64":
		c.setI64(x.Int64())
	case "Uint64":
		c.res = new(big.Int).SetUint64(x.Uint64())
	case "Cmp":
		y := argBI()
		v := int64(0)
		for i, t := range []bool{x.Equal(y), x.GT(y), x.GTE(y), x.LT(y), x.LTE(y), x.IsZero(), x.IsNegative(), x.IsPositive()} {
			if t {
				v |= 1 << uint(i)
			}
		}
		c.setI64(v)
	default:
		panic("driver: unknown BI op " + m)
	}
}

// free functions / constructors
func runF(c *ctx, m string, a, b *big.Int, tc tcase) {
	switch m {
	case "NewBigDec":
		c.setBD(osmomath.NewBigDec(a.Int64()))
	case "NewBigDecWithPrec":
		c.setBD(osmomath.NewBigDecWithPrec(a.Int64(), tc.K))
	case "NewBigDecFromBigInt":
		c.recv = new(big.Int).Set(a)
		c.setBD(osmomath.NewBigDecFromBigInt(c.recv))
	case "NewBigDecFromBigIntMut":
		c.recv = new(big.Int).Set(a)
		c.setBD(osmomath.NewBigDecFromBigIntMut(c.recv))
	case "NewBigDecFromBigIntWithPrec":
		c.recv = new(big.Int).Set(a)
		c.setBD(osmomath.NewBigDecFromBigIntWithPrec(c.recv, tc.K))
	case "NewBigDecFromBigIntMutWithPrec":
		c.recv = new(big.Int).Set(a)
		c.setBD(osmomath.NewBigDecFromBigIntMutWithPrec(c.recv, tc.K))
	case "NewBigDecFromInt":
		c.setBD(osmomath.NewBigDecFromInt(osmomath.NewBigIntFromBigInt(new(big.Int).Set(a))))
	case "NewBigDecFromIntWithPrec":
		c.setBD(osmomath.NewBigDecFromIntWithPrec(osmomath.NewBigIntFromBigInt(new(big.Int).Set(a)), tc.K))
	case "BigDecFromSDKInt":
		c.setBD(osmomath.BigDecFromSDKInt(osmomath.NewIntFromBigInt(a)))
	case "NewBigIntWithDecimal":
		c.setBI(osmomath.NewBigIntWithDecimal(a.Int64(), int(tc.K)))
	case "DivIntByU64ToBigDec":
		r, err := osmomath.DivIntByU64ToBigDec(osmomath.NewIntFromBigInt(a), b.Uint64(), osmomath.RoundingDirection(tc.K))
		if err != nil {
			if strings.Contains(err.Error(), "div by zero") {
				c.o.P = pDivZero
			} else {
				c.o.P = pOther
			}
			c.o.E = err.Error()
			return
		}
		c.setBD(r)
	case "Zero":
		c.setBD(osmomath.ZeroBigDec())
	case "One":
		c.setBD(osmomath.OneBigDec())
	case "Smallest":
		c.setBD(osmomath.SmallestBigDec())
	default:
		panic("driver: unknown F op " + m)
	}
}

// ---- codecs -------------------------------------------------------------------------------

func perr(err error) int {
	if err != nil {
		return pParse
	}
	return pNone
}

// codec ops report, for one value: the three encodings (text, binary, JSON) and for each the result of
// decoding it again; for one text: the result of each of the three decoders on it.
func runCodec(tc tcase) (o obs) {
	defer func() {
		if rec := recover(); rec != nil {
			o.P = pOther
			o.E = fmt.Sprint(rec)
		}
	}()
	add := func(err error, z *big.Int) {
		if err != nil {
			o.PS = append(o.PS, pParse)
			o.RS = append(o.RS, "0")
			return
		}
		if z == nil {
			o.PS = append(o.PS, pNil)
			o.RS = append(o.RS, "0")
			return
		}
		o.PS = append(o.PS, pNone)
		o.RS = append(o.RS, z.String())
	}
	switch tc.Op {
	case "C.BD": // encodings of a BigDec and their decodings
		x := mkBD(bi(tc.A))
		s := x.String()
		bz, err1 := x.Marshal()
		js, err2 := x.MarshalJSON()
		if err1 != nil || err2 != nil {
			o.P = pOther
			return
		}
		o.S = []string{s, string(bz), string(js)}
		d1, err := osmomath.NewBigDecFromStr(s)
		add(err, d1.BigIntMut())
		var d2 osmomath.BigDec
		err = d2.Unmarshal(bz)
		add(err, d2.BigIntMut())
		var d3 osmomath.BigDec
		err = d3.UnmarshalJSON(js)
		add(err, d3.BigIntMut())
		// MarshalTo / Size agree with Marshal
		buf := make([]byte, len(bz)+4)
		n, err := x.MarshalTo(buf)
		if err != nil || string(buf[:n]) != string(bz) || x.Size() != len(bz) {
			o.P = pOther
			o.E = "MarshalTo/Size disagree with Marshal"
		}
		o.A = x.BigIntMut().String()
	case "C.D":
		x := mkD(bi(tc.A))
		s := x.String()
		bz, err1 := x.Marshal()
		js, err2 := x.MarshalJSON()
		if err1 != nil || err2 != nil {
			o.P = pOther
			return
		}
		o.S = []string{s, string(bz), string(js)}
		d1, err := osmomath.NewDecFromStr(s)
		add(err, d1.BigIntMut())
		var d2 osmomath.Dec
		err = d2.Unmarshal(bz)
		add(err, d2.BigIntMut())
		var d3 osmomath.Dec
		err = d3.UnmarshalJSON(js)
		add(err, d3.BigIntMut())
		o.A = x.BigIntMut().String()
	case "C.BI":
		store := bi(tc.A)
		x := osmomath.NewBigIntFromBigInt(store)
		s := x.String()
		bz, err1 := x.Marshal()
		js, err2 := x.MarshalJSON()
		if err1 != nil || err2 != nil {
			o.P = pOther
			return
		}
		o.S = []string{s, string(bz), string(js)}
		d1, ok := osmomath.NewBigIntFromString(s)
		if ok {
			add(nil, d1.BigInt())
		} else {
			add(fmt.Errorf("not ok"), nil)
		}
		var d2 osmomath.BigInt
		err := d2.Unmarshal(bz)
		add(err, d2.BigInt())
		var d3 osmomath.BigInt
		err = d3.UnmarshalJSON(js)
		add(err, d3.BigInt())
		o.A = store.String()
	case "P.BD": // the three BigDec decoders on an arbitrary text
		d1, err := osmomath.NewBigDecFromStr(tc.T)
		add(err, d1.BigIntMut())
		var d2 osmomath.BigDec
		err = d2.Unmarshal([]byte(tc.T))
		add(err, d2.BigIntMut())
		var d3 osmomath.BigDec
		err = d3.UnmarshalJSON([]byte(tc.T))
		add(err, d3.BigIntMut())
	case "P.D":
		d1, err := osmomath.NewDecFromStr(tc.T)
		add(err, d1.BigIntMut())
		var d2 osmomath.Dec
		err = d2.Unmarshal([]byte(tc.T))
		add(err, d2.BigIntMut())
		var d3 osmomath.Dec
		err = d3.UnmarshalJSON([]byte(tc.T))
		add(err, d3.BigIntMut())
	case "P.BI":
		d1, ok := osmomath.NewBigIntFromString(tc.T)
		if ok {
			add(nil, d1.BigInt())
		} else {
			add(fmt.Errorf("not ok"), nil)
		}
		var d2 osmomath.BigInt
		err := d2.Unmarshal([]byte(tc.T))
		add(err, d2.BigInt())
		var d3 osmomath.BigInt
		err = d3.UnmarshalJSON([]byte(tc.T))
		add(err, d3.BigInt())
	default:
		panic("driver: unknown codec op " + tc.Op)
	}
	return o
}

func main() {
	in := bufio.NewReaderSize(os.Stdin, 1<<20)
	out := bufio.NewWriterSize(os.Stdout, 1<<20)
	defer out.Flush()
	dec := json.NewDecoder(in)
	enc := json.NewEncoder(out)
	for dec.More() {
		var tc tcase
		if err := dec.Decode(&tc); err != nil {
			fmt.Fprintln(os.Stderr, "driver: bad case:", err)
			os.Exit(2)
		}
		var o obs
		if strings.HasPrefix(tc.Op, "C.") || strings.HasPrefix(tc.Op, "P.") {
			o = runCodec(tc)
		} else {
			o = run(tc)
		}
		if err := enc.Encode(&o); err != nil {
			os.Exit(2)
		}
	}
}
