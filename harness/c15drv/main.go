// c15drv runs the real osmoutils/accum package on scripted histories read from stdin (one JSON case per
// line) over an in-memory IAVL store and prints one JSON observation per case.  Observables are projected:
// amounts as integers (raw 18-decimal mantissas), errors as a small enum, denominations / names as indices.
package main

import (
	"bufio"
	"encoding/json"
	"errors"
	"fmt"
	"math/big"
	"os"
	"strings"

	"cosmossdk.io/log"
	"cosmossdk.io/store/cachekv"
	iavlstore "cosmossdk.io/store/iavl"
	storetypes "cosmossdk.io/store/types"
	dbm "github.com/cosmos/cosmos-db"
	sdk "github.com/cosmos/cosmos-sdk/types"
	"github.com/cosmos/iavl"

	"github.com/osmosis-labs/osmosis/osmomath"
	"github.com/osmosis-labs/osmosis/osmoutils/accum"
	"github.com/osmosis-labs/osmosis/osmoutils/wrapper"
)

// order-preserving bijections index <-> string (strings.Compare order = index order for denoms)
var denoms = []string{"denom0", "denom00", "denom1", "uosmo"}
var accNames = []string{"acc", "acc/1", "accum", "b"}
var posNames = []string{"p0", "p0/1", "1", "p1", "acc", "zz"}

// names that probe the key layout of prefix.go (used only by cases that ask for it: "tricky": true)
var accNamesTricky = []string{"acc", "acc|", "acc|pos", "b"}
var posNamesTricky = []string{"p0", "|p0", "pos||p0", "p1", "acc", "|"}

type opT struct {
	K     string      `json:"k"`
	A     int         `json:"a"`
	H     int         `json:"h"`
	F     bool        `json:"f"`
	N     int         `json:"n"`
	S     string      `json:"s"`
	C     [][2]string `json:"c"`
	Bad   bool        `json:"bad"`
	Opt   bool        `json:"opt"`
}

type caseT struct {
	NN     int   `json:"nn"`
	NA     int   `json:"na"`
	Tricky bool  `json:"tricky"`
	Ops    []opT `json:"ops"`
}

type obsT struct {
	Flat []*big.Int `json:"flat"`
	Err  string     `json:"err,omitempty"`
}

// switchStore lets long-lived AccumulatorObjects survive a discarded cache layer
type switchStore struct{ storetypes.KVStore }

type world struct {
	base    storetypes.KVStore
	sw      *switchStore
	handles map[[2]int]*accum.AccumulatorObject
	accN    []string
	posN    []string
}

func newWorld(tricky bool) *world {
	db := wrapper.NewIAVLDB(dbm.NewMemDB())
	tree := iavl.NewMutableTree(db, 100, false, log.NewNopLogger())
	if _, _, err := tree.SaveVersion(); err != nil {
		panic(err)
	}
	base := iavlstore.UnsafeNewStore(tree)
	w := &world{base: base, handles: map[[2]int]*accum.AccumulatorObject{}, accN: accNames, posN: posNames}
	if tricky {
		w.accN, w.posN = accNamesTricky, posNamesTricky
	}
	w.sw = &switchStore{cachekv.NewStore(base)}
	return w
}

func (w *world) commit()  { w.sw.KVStore.(*cachekv.Store).Write() }
func (w *world) discard() { w.sw.KVStore = cachekv.NewStore(w.base) }

func z(i int64) *big.Int { return big.NewInt(i) }

func dec(s string) osmomath.Dec {
	b, ok := new(big.Int).SetString(s, 10)
	if !ok {
		panic("bad integer " + s)
	}
	return osmomath.NewDecFromBigIntWithPrec(b, 18)
}

func mkCoins(c [][2]string) sdk.DecCoins {
	out := sdk.DecCoins{}
	for _, e := range c {
		var di int
		fmt.Sscanf(e[0], "%d", &di)
		out = append(out, sdk.DecCoin{Denom: denoms[di], Amount: dec(e[1])})
	}
	return out
}

func denomIdx(d string) int64 {
	for i, x := range denoms {
		if x == d {
			return int64(i)
		}
	}
	return -1
}

func flatDecCoins(c sdk.DecCoins) []*big.Int {
	out := []*big.Int{z(int64(len(c)))}
	for _, x := range c {
		out = append(out, z(denomIdx(x.Denom)), new(big.Int).Set(x.Amount.BigInt()))
	}
	return out
}

func flatCoins(c sdk.Coins) []*big.Int {
	out := []*big.Int{z(int64(len(c)))}
	for _, x := range c {
		out = append(out, z(denomIdx(x.Denom)), new(big.Int).Set(x.Amount.BigInt()))
	}
	return out
}

func errCode(err error) int64 {
	if err == nil {
		return 0
	}
	var np accum.NoPositionError
	var na accum.AccumDoesNotExistError
	var nr accum.NegativeRewardsAdditionError
	switch {
	case errors.As(err, &np):
		return 4
	case errors.As(err, &na):
		return 3
	case errors.As(err, &nr):
		return 9
	case errors.Is(err, accum.ZeroSharesError):
		return 8
	}
	// every other error is an untyped errors.New / fmt.Errorf: its text is not an observable
	return 5
}

func flatRecv(a *accum.AccumulatorObject) []*big.Int {
	if a == nil {
		return []*big.Int{z(0)}
	}
	out := []*big.Int{z(1), new(big.Int).Set(a.GetTotalShares().BigInt())}
	return append(out, flatDecCoins(a.GetValue())...)
}

// fresh GetAccumulator, then GetPosition / HasPosition of every observed name
func (w *world) flatStore(a int, nn int) []*big.Int {
	acc, err := accum.GetAccumulator(w.sw, w.accN[a])
	var out []*big.Int
	if err != nil {
		out = flatRecv(nil)
	} else {
		out = flatRecv(acc)
	}
	for n := 0; n < nn; n++ {
		if err != nil {
			// no accumulator object to ask: look at the raw key
			if w.sw.Has(accum.FormatPositionPrefixKey(w.accN[a], w.posN[n])) {
				out = append(out, z(7))
			} else {
				out = append(out, z(0))
			}
			continue
		}
		has := acc.HasPosition(w.posN[n])
		rec, perr := acc.GetPosition(w.posN[n])
		if has != (perr == nil) {
			out = append(out, z(7))
			continue
		}
		if !has {
			out = append(out, z(0))
			continue
		}
		out = append(out, z(1), new(big.Int).Set(rec.NumShares.BigInt()))
		out = append(out, flatDecCoins(rec.AccumValuePerShare)...)
		out = append(out, flatDecCoins(rec.UnclaimedRewardsTotal)...)
	}
	return out
}

// one exported call; returns (error code, return-value flattening)
func call(acc *accum.AccumulatorObject, w *world, o opT) (code int64, ret []*big.Int) {
	ret = []*big.Int{z(0)}
	var opts *accum.Options
	if o.Opt {
		opts = &accum.Options{}
	}
	name := ""
	if o.N >= 0 && o.N < len(w.posN) {
		name = w.posN[o.N]
	}
	var err error
	switch o.K {
	case "grow":
		acc.AddToAccumulator(mkCoins(o.C))
	case "new":
		err = acc.NewPosition(name, dec(o.S), opts)
	case "newia":
		err = acc.NewPositionIntervalAccumulation(name, dec(o.S), mkCoins(o.C), opts)
	case "add":
		err = acc.AddToPosition(name, dec(o.S))
	case "addia":
		err = acc.AddToPositionIntervalAccumulation(name, dec(o.S), mkCoins(o.C))
	case "rem":
		err = acc.RemoveFromPosition(name, dec(o.S))
	case "remia":
		err = acc.RemoveFromPositionIntervalAccumulation(name, dec(o.S), mkCoins(o.C))
	case "upd":
		err = acc.UpdatePosition(name, dec(o.S))
	case "updia":
		err = acc.UpdatePositionIntervalAccumulation(name, dec(o.S), mkCoins(o.C))
	case "setia":
		err = acc.SetPositionIntervalAccumulation(name, mkCoins(o.C))
	case "claim":
		var c sdk.Coins
		var d sdk.DecCoins
		c, d, err = acc.ClaimRewards(name)
		if err == nil {
			ret = append([]*big.Int{z(1)}, flatCoins(c)...)
			ret = append(ret, flatDecCoins(d)...)
		}
	case "del":
		var d sdk.DecCoins
		d, err = acc.DeletePosition(name)
		if err == nil {
			ret = append([]*big.Int{z(2)}, flatDecCoins(d)...)
		}
	case "unc":
		err = acc.AddToUnclaimedRewards(name, mkCoins(o.C))
	default:
		panic("driver: unknown op " + o.K)
	}
	if err != nil {
		return errCode(err), []*big.Int{z(0)}
	}
	return 0, ret
}

func (w *world) step(o opT, nn int) []*big.Int {
	if o.K == "make" {
		name := w.accN[o.A]
		if o.Bad {
			name = name + "||x"
		}
		err := accum.MakeAccumulator(w.sw, name)
		w.commit()
		out := []*big.Int{z(errCode(err)), z(0)}
		return append(out, w.flatStore(o.A, nn)...)
	}
	key := [2]int{o.A, o.H}
	h := w.handles[key]
	if o.F || h == nil {
		got, err := accum.GetAccumulator(w.sw, w.accN[o.A])
		if err != nil {
			out := []*big.Int{z(errCode(err)), z(0)}
			out = append(out, flatRecv(w.handles[key])...)
			return append(out, w.flatStore(o.A, nn)...)
		}
		h = got
		w.handles[key] = h
	}
	var code int64
	var ret []*big.Int
	panicked := false
	func() {
		defer func() {
			if r := recover(); r != nil {
				if s, ok := r.(string); ok && strings.HasPrefix(s, "driver:") {
					panic(r)
				}
				panicked = true
			}
		}()
		code, ret = call(h, w, o)
	}()
	if panicked {
		// transaction abort: discard the writes, the object does not survive
		w.discard()
		code, ret = 99, []*big.Int{z(0)}
		got, err := accum.GetAccumulator(w.sw, w.accN[o.A])
		if err == nil {
			w.handles[key] = got
		}
	} else {
		w.commit()
	}
	out := append([]*big.Int{z(code)}, ret...)
	out = append(out, flatRecv(w.handles[key])...)
	return append(out, w.flatStore(o.A, nn)...)
}

func runCase(c caseT) (o obsT) {
	defer func() {
		if r := recover(); r != nil {
			o.Err = fmt.Sprintf("driver panic: %v", r)
		}
	}()
	w := newWorld(c.Tricky)
	flat := []*big.Int{}
	for _, op := range c.Ops {
		flat = append(flat, w.step(op, c.NN)...)
	}
	flat = append(flat, z(-2))
	for a := 0; a < c.NA; a++ {
		flat = append(flat, w.flatStore(a, c.NN)...)
	}
	o.Flat = flat
	return o
}

func main() {
	in := bufio.NewReaderSize(os.Stdin, 1<<20)
	out := bufio.NewWriter(os.Stdout)
	defer out.Flush()
	dec := json.NewDecoder(in)
	for dec.More() {
		var c caseT
		if err := dec.Decode(&c); err != nil {
			fmt.Fprintln(os.Stderr, "bad case:", err)
			os.Exit(2)
		}
		b, _ := json.Marshal(runCase(c))
		out.Write(b)
		out.WriteByte('\n')
	}
}
