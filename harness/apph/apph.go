// Package apph is the shared glue of the full-app drivers: a fresh chain per case through
// app/apptesting.KeeperTestHelper, baseapp-style atomic execution of keeper / msg-server calls, and the
// case-in / observation-out protocol (JSON lines on stdin / stdout of a `go test -c` binary run with
// -test.run '^TestDriver$').
package apph

import (
	"bufio"
	"encoding/json"
	"fmt"
	"os"
	"testing"

	sdk "github.com/cosmos/cosmos-sdk/types"

	"github.com/osmosis-labs/osmosis/v31/app/apptesting"
)

// Helper wraps the repo's own test helper; H.App, H.Ctx, H.FundAcc, ... are available.
type Helper struct {
	apptesting.KeeperTestHelper
}

// New returns a fresh chain (about 10 ms).
func New(t *testing.T) *Helper {
	h := &Helper{}
	h.SetT(t)
	h.Setup()
	return h
}

// Atomic runs f the way baseapp runs a message: on a cache context whose writes are committed only
// when f returns nil. A panic inside f is recovered, nothing is written, and it is reported as an
// error prefixed "panic:".
func Atomic(ctx sdk.Context, f func(ctx sdk.Context) error) (err error) {
	cctx, write := ctx.CacheContext()
	defer func() {
		if r := recover(); r != nil {
			err = fmt.Errorf("panic: %v", r)
		}
	}()
	err = f(cctx)
	if err == nil {
		write()
	}
	return err
}

// Discard runs f on a cache context that is never written back (what-if branch).
func Discard(ctx sdk.Context, f func(ctx sdk.Context)) (err error) {
	cctx, _ := ctx.CacheContext()
	defer func() {
		if r := recover(); r != nil {
			err = fmt.Errorf("panic: %v", r)
		}
	}()
	f(cctx)
	return nil
}

// Serve reads one JSON case per line from stdin, calls run, and prints one JSON observation per line.
// Observation lines start with "{" ; everything else the test binary prints is ignored by the harness.
func Serve[C any, O any](t *testing.T, run func(t *testing.T, c C) O) {
	in := bufio.NewReaderSize(os.Stdin, 1<<22)
	dec := json.NewDecoder(in)
	out := bufio.NewWriterSize(os.Stdout, 1<<20)
	defer out.Flush()
	for dec.More() {
		var c C
		if err := dec.Decode(&c); err != nil {
			t.Fatalf("bad case: %v", err)
		}
		o := run(t, c)
		b, err := json.Marshal(o)
		if err != nil {
			t.Fatalf("marshal: %v", err)
		}
		out.Write(b)
		out.WriteString("\n")
		out.Flush()
	}
}
