package statik
