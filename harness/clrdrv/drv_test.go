// Package clrdrv is the concentrated-liquidity driver of properties C08 (rewards reach the liquidity that
// earned them) and C01 (solvency).  It started as a copy of harness/cldrv (b-cl's driver for C07 / C03) and adds:
// spread-reward / incentive collection, incentive creation on every authorised uptime, the scaling-factor
// migration thresholds (pools on either side), claimable queries, per-tick growth-outside trackers (spread and
// uptime), per-position accumulator records, the incentive records, and - for C01 - after every operation the
// "everybody exits" experiment on discarded branches of state in two different orders.
//
// A case = one pool (denoms, tick spacing, spread factor) + a history of operations by three accounts.
// Every operation goes through the concentrated-liquidity MsgServer or the poolmanager swap MsgServer,
// after the message's ValidateBasic, under apph.Atomic (baseapp's message atomicity).  After EVERY
// operation the whole observable state of the pool is dumped (see type obsStep).  Operations in a case
// may refer to positions symbolically ("the k-th position of account a"); the driver resolves them against
// the live state and echoes the resolved, concrete operation ("rop") so that the Coq model and the Python
// oracles only ever see concrete operations.  Big numbers are decimal strings; BigDec / Dec values are
// printed as their raw mantissas (x 10^36 / x 10^18).
package clrdrv

import (
	"crypto/sha256"
	"encoding/hex"
	"fmt"
	"math/big"
	"sort"
	"testing"
	"time"

	sdk "github.com/cosmos/cosmos-sdk/types"
	banktypes "github.com/cosmos/cosmos-sdk/x/bank/types"

	"github.com/osmosis-labs/osmosis/osmomath"
	"github.com/osmosis-labs/osmosis/osmoutils/accum"
	cl "github.com/osmosis-labs/osmosis/v31/x/concentrated-liquidity"
	clmath "github.com/osmosis-labs/osmosis/v31/x/concentrated-liquidity/math"
	cltypes "github.com/osmosis-labs/osmosis/v31/x/concentrated-liquidity/types"
	"github.com/osmosis-labs/osmosis/v31/x/poolmanager"
	pmtypes "github.com/osmosis-labs/osmosis/v31/x/poolmanager/types"

	"verifharness/apph"
)

// ---------------------------------------------------------------------------------------------
// case format
// ---------------------------------------------------------------------------------------------

type opIn struct {
	K string `json:"k"` // create | withdraw | add | transfer | swap_in | swap_out | swap_to_tick | collect_spread | collect_inc | incentive | time
	A int    `json:"a"` // acting account index 0..2

	// create
	Lo   int64  `json:"lo"`
	Hi   int64  `json:"hi"`
	Amt0 string `json:"amt0"`
	Amt1 string `json:"amt1"`
	Min0 string `json:"min0"`
	Min1 string `json:"min1"`

	// position selection (withdraw / add / transfer / collect_*): Id > 0 = literal id; otherwise the
	// Sel-th (mod n) existing position, among the positions of account A if Own (falling back to all
	// positions when A owns none), id = next id + 3 when the pool has no position at all.
	Id   uint64 `json:"id"`
	Sel  int    `json:"sel"`
	Sels []int  `json:"sels"`
	Own  bool   `json:"own"`

	// withdraw: Liq (raw Dec mantissa) if non-empty, else floor(L * Num / Den) of the selected position
	Liq string `json:"liq"`
	Num int64  `json:"num"`
	Den int64  `json:"den"`

	// transfer
	To int `json:"to"`

	// create_at: Edge = "upper" | "lower", Wd = width in tick spacings, Off = offset in tick spacings from the current tick
	Edge string `json:"edge"`
	Wd   int64  `json:"wd"`
	Off  int64  `json:"off"`

	// swaps: Zfo = token0 in.  swap_in: Amt in, Lim = min out.  swap_out: Amt out, Lim = max in.
	// swap_to_tick: exact-in of (ComputeMaxInAmtGivenMaxTicksCrossed(N) + Delta)
	Zfo   bool   `json:"zfo"`
	Amt   string `json:"amt"`
	Lim   string `json:"lim"`
	N     uint64 `json:"n"`
	Delta int64  `json:"delta"`

	// incentive: coin Amt of denom index D (0/1), emission Rate (raw Dec), start = now + Dt s, uptime index U
	D    int    `json:"d"`
	Rate string `json:"rate"`
	U    int    `json:"u"`
	// time: advance block time by Dt seconds
	Dt int64 `json:"dt"`
}

type caseIn struct {
	Denom0  string `json:"denom0"`
	Denom1  string `json:"denom1"`
	Spacing uint64 `json:"spacing"`
	Spread  string `json:"spread"` // raw Dec mantissa (x 10^18)
	Fund    string `json:"fund"`   // initial balance of each account in each denom
	Ops     []opIn `json:"ops"`
	Est     bool   `json:"est"` // record estimates around swaps (C03)
	// C08 / C01 additions
	SpreadScaled bool  `json:"spread_scaled"` // pool id above the spread-factor accumulator migration threshold (scaling 10^27) or not (scaling 1)
	IncScaled    bool  `json:"inc_scaled"`    // same for the incentive accumulators
	T0           int64 `json:"t0"`            // block time (unix s) at pool creation; default 1700000000
	Exits        bool  `json:"exits"`         // C01: after every operation everybody exits on discarded branches (two orders)
}

// ---------------------------------------------------------------------------------------------
// observation format
// ---------------------------------------------------------------------------------------------

type ropT struct {
	K    string   `json:"k"`
	A    int      `json:"a"`
	Lo   int64    `json:"lo,omitempty"`
	Hi   int64    `json:"hi,omitempty"`
	Amt0 string   `json:"amt0,omitempty"`
	Amt1 string   `json:"amt1,omitempty"`
	Min0 string   `json:"min0,omitempty"`
	Min1 string   `json:"min1,omitempty"`
	Id   uint64   `json:"id,omitempty"`
	Ids  []uint64 `json:"ids,omitempty"`
	Liq  string   `json:"liq,omitempty"`
	To   int      `json:"to,omitempty"`
	Zfo  bool     `json:"zfo,omitempty"`
	Amt  string   `json:"amt,omitempty"`
	Lim  string   `json:"lim,omitempty"`
	D    int      `json:"d,omitempty"`
	Rate string   `json:"rate,omitempty"`
	U    int      `json:"u,omitempty"`
	Dt   int64    `json:"dt,omitempty"`
}

type estT struct {
	Err      int    `json:"err"`      // estimate before the swap: 0 ok / 1 error / 2 panic
	Amt      string `json:"amt"`      // estimated token out (swap_in) / token in (swap_out)
	Touched  bool   `json:"touched"`  // did the estimate change the CL or bank store?
	BackErr  int    `json:"back_err"` // after a successful swap: estimate of swapping the received amount straight back (exact-in), on a discarded context
	BackAmt  string `json:"back_amt"`
	Back2Err int    `json:"back2_err"` // same, as an actual execution on a discarded context
	Back2Amt string `json:"back2_amt"`
}

type obsStep struct {
	Rop  ropT     `json:"rop"`
	Err  int      `json:"err"`  // 0 ok, 1 error returned (incl. ValidateBasic), 2 panic
	Etyp string   `json:"etyp"` // Go type / short text of the error (for histograms only)
	Res  []string `json:"res"`  // create: id amount0 amount1 liquidity lower upper; withdraw: amount0 amount1; add: id amount0 amount1; swap_in: out; swap_out: in; collect_*: amount of denom0, denom1
	// state after the op
	Tick   int64      `json:"tick"`
	SqrtP  string     `json:"sqrtp"`
	Liq    string     `json:"liq"`
	Ticks  [][]string `json:"ticks"` // index, gross, net, TickToSqrtPrice(index), spread growth outside denom0, denom1, then uptime growth outside 6 x (denom0, denom1)
	Pos    [][]string `json:"pos"`   // id, owner index (-1 = somebody else), lower, upper, liquidity, join time (unix s), claimable spread rewards denom0, denom1
	Uidx   [][]uint64 `json:"uidx"`  // per account: ids listed by the per-owner index (GetUserPositions)
	AnyPos bool       `json:"anypos"`
	NextId uint64     `json:"next_id"`
	Bal    [][]string `json:"bal"`   // pool, spread rewards, incentives, acc0, acc1, acc2: [denom0, denom1]
	Edge   []string   `json:"edge"`  // b = current tick rounded down to spacing: b, S(b), b+spacing, S(b+spacing)   ("" when out of range)
	Accum  []string   `json:"accum"` // spread reward accumulator value denom0, denom1 (raw Dec), total shares
	Time   int64      `json:"time"`
	Est    *estT      `json:"est,omitempty"`
	// C08 / C01 additions
	PosRec  [][]string `json:"pos_rec"`  // per position (same order as Pos): spread record shares, snap0, snap1, unclaimed0, unclaimed1; then per uptime the same 5 ("" x5 when absent)
	PosInc  [][]string `json:"pos_inc"`  // per position: claimable incentives collected0, collected1, forfeited0, forfeited1 ("" when the query fails)
	UpAccum [][]string `json:"up_accum"` // per uptime accumulator: value denom0, denom1 (raw Dec), total shares
	IncRecs [][]string `json:"inc_recs"` // incentive records in store order: id, uptime index, denom index, remaining (raw Dec), rate (raw Dec), start (unix s)
	RecsNow [][]string `json:"recs_now"` // the same records after bringing the uptime accumulators up to the block time on a discarded branch (what the claimable queries see)
	NextInc uint64     `json:"next_inc"`
	LastUpd int64      `json:"last_upd"` // pool LastLiquidityUpdate (unix s)
	Exit    []exitT    `json:"exit,omitempty"`
}

// one "everybody exits" experiment on a discarded branch of state
type exitT struct {
	Order int        `json:"order"` // 0: ascending ids, collect spread, collect incentives, withdraw all; 1: descending ids, withdraw all only
	Acts  [][]string `json:"acts"`  // kind (cs / ci / w), position id, err (0/1/2), amounts (cs: 2, ci: 4, w: 2)
	Bal   [][]string `json:"bal"`   // afterwards: pool, spread rewards, incentives: [denom0, denom1]
	Left  int        `json:"left"`  // positions still open afterwards
	Recs  []string   `json:"recs"`  // remaining amounts of the incentive records afterwards (raw Dec), per denom index summed: [denom0, denom1]
}

type obsOut struct {
	Init  obsStep   `json:"init"`
	Steps []obsStep `json:"steps"`
	Fatal string    `json:"fatal,omitempty"`
}

// ---------------------------------------------------------------------------------------------

func bi(s string) osmomath.Int {
	if s == "" {
		return osmomath.ZeroInt()
	}
	v, ok := new(big.Int).SetString(s, 10)
	if !ok {
		panic("bad integer " + s)
	}
	return osmomath.NewIntFromBigInt(v)
}

func decRaw(s string) osmomath.Dec {
	v, ok := new(big.Int).SetString(s, 10)
	if !ok {
		panic("bad dec mantissa " + s)
	}
	return osmomath.NewDecFromBigIntWithPrec(v, 18)
}

func rawDec(d osmomath.Dec) string {
	if d.IsNil() {
		return "0"
	}
	return d.BigInt().String()
}
func rawBig(d osmomath.BigDec) string {
	if d.IsNil() {
		return "0"
	}
	return d.BigInt().String()
}

type world struct {
	h      *apph.Helper
	poolId uint64
	d0, d1 string
	accs   []sdk.AccAddress
	clms   cltypes.MsgServer
	pmms   pmtypes.MsgServer
}

func (w *world) accIdx(addr string) int {
	for i, a := range w.accs {
		if a.String() == addr {
			return i
		}
	}
	return -1
}

func errKind(err error) (int, string) {
	if err == nil {
		return 0, ""
	}
	s := err.Error()
	if len(s) >= 6 && s[:6] == "panic:" {
		if len(s) > 60 {
			s = s[:60]
		}
		return 2, s
	}
	return 1, fmt.Sprintf("%T", err)
}

func (w *world) digest() string {
	hsh := sha256.New()
	for _, key := range []string{cltypes.StoreKey, banktypes.StoreKey} {
		st := w.h.Ctx.KVStore(w.h.App.GetKey(key))
		it := st.Iterator(nil, nil)
		for ; it.Valid(); it.Next() {
			hsh.Write(it.Key())
			hsh.Write([]byte{0})
			hsh.Write(it.Value())
			hsh.Write([]byte{1})
		}
		it.Close()
	}
	return hex.EncodeToString(hsh.Sum(nil))
}

func (w *world) allPositionIds() []uint64 {
	k := w.h.App.ConcentratedLiquidityKeeper
	next := k.GetNextPositionId(w.h.Ctx)
	var ids []uint64
	for id := uint64(1); id < next; id++ {
		if _, err := k.GetPosition(w.h.Ctx, id); err == nil {
			ids = append(ids, id)
		}
	}
	return ids
}

// selLast as a selector picks the open position with the largest id
const selLast = 999983

func (w *world) selectPos(a int, sel int, own bool, lit uint64) uint64 {
	if lit > 0 {
		return lit
	}
	k := w.h.App.ConcentratedLiquidityKeeper
	ids := w.allPositionIds()
	if len(ids) == 0 {
		return k.GetNextPositionId(w.h.Ctx) + 3
	}
	if sel == selLast { // the most recently created position that is still open
		return ids[len(ids)-1]
	}
	cand := ids
	if own {
		var mine []uint64
		for _, id := range ids {
			p, _ := k.GetPosition(w.h.Ctx, id)
			if p.Address == w.accs[a].String() {
				mine = append(mine, id)
			}
		}
		if len(mine) > 0 {
			cand = mine
		}
	}
	if sel < 0 {
		sel = -sel
	}
	return cand[sel%len(cand)]
}

// findBalance: see the "balance" op.
func (w *world) findBalance(sel int) (uint64, string, int, bool) {
	k := w.h.App.ConcentratedLiquidityKeeper
	ticks, err := k.GetAllInitializedTicksForPool(w.h.Ctx, w.poolId)
	if err != nil {
		return 0, "", 0, false
	}
	type cand struct {
		id    uint64
		liq   string
		owner int
	}
	var cands []cand
	ids := w.allPositionIds()
	for _, t := range ticks {
		net := t.Info.LiquidityNet
		if net.IsZero() {
			continue
		}
		hasLower, hasUpper := false, false
		for _, id := range ids {
			p, _ := k.GetPosition(w.h.Ctx, id)
			hasLower = hasLower || p.LowerTick == t.TickIndex
			hasUpper = hasUpper || p.UpperTick == t.TickIndex
		}
		if !hasLower || !hasUpper {
			continue
		}
		for _, id := range ids {
			p, _ := k.GetPosition(w.h.Ctx, id)
			oi := w.accIdx(p.Address)
			if oi < 0 {
				continue
			}
			// heavier side: lower boundary positions when net > 0, upper boundary positions when net < 0
			if net.IsPositive() && p.LowerTick == t.TickIndex && p.Liquidity.GTE(net) {
				cands = append(cands, cand{id, rawDec(net), oi})
			}
			if net.IsNegative() && p.UpperTick == t.TickIndex && p.Liquidity.GTE(net.Neg()) {
				cands = append(cands, cand{id, rawDec(net.Neg()), oi})
			}
		}
	}
	if len(cands) == 0 {
		return 0, "", 0, false
	}
	if sel < 0 {
		sel = -sel
	}
	c := cands[sel%len(cands)]
	return c.id, c.liq, c.owner, true
}

func (w *world) dump(o *obsStep) {
	ctx := w.h.Ctx
	k := w.h.App.ConcentratedLiquidityKeeper
	pool, err := k.GetConcentratedPoolById(ctx, w.poolId)
	if err != nil {
		panic(err)
	}
	o.Tick = pool.GetCurrentTick()
	o.SqrtP = rawBig(pool.GetCurrentSqrtPrice())
	o.Liq = rawDec(pool.GetLiquidity())
	ticks, err := k.GetAllInitializedTicksForPool(ctx, w.poolId)
	if err != nil {
		panic(err)
	}
	o.Ticks = [][]string{}
	for _, t := range ticks {
		s, err := clmath.TickToSqrtPrice(t.TickIndex)
		ss := ""
		if err == nil {
			ss = rawBig(s)
		}
		g := t.Info.SpreadRewardGrowthOppositeDirectionOfLastTraversal
		row := []string{fmt.Sprint(t.TickIndex), rawDec(t.Info.LiquidityGross), rawDec(t.Info.LiquidityNet), ss,
			rawDec(g.AmountOf(w.d0)), rawDec(g.AmountOf(w.d1))}
		for _, ut := range t.Info.UptimeTrackers.List {
			row = append(row, rawDec(ut.UptimeGrowthOutside.AmountOf(w.d0)), rawDec(ut.UptimeGrowthOutside.AmountOf(w.d1)))
		}
		o.Ticks = append(o.Ticks, row)
	}
	sort.Slice(o.Ticks, func(i, j int) bool {
		a, _ := new(big.Int).SetString(o.Ticks[i][0], 10)
		b, _ := new(big.Int).SetString(o.Ticks[j][0], 10)
		return a.Cmp(b) < 0
	})
	o.Pos = [][]string{}
	o.PosRec = [][]string{}
	o.PosInc = [][]string{}
	spreadAcc, _ := k.GetSpreadRewardAccumulator(ctx, w.poolId)
	upAccs, _ := k.GetUptimeAccumulators(ctx, w.poolId)
	recRow := func(acc *accum.AccumulatorObject, name string) []string {
		if acc == nil || !acc.HasPosition(name) {
			return []string{"", "", "", "", ""}
		}
		r, err := acc.GetPosition(name)
		if err != nil {
			return []string{"", "", "", "", ""}
		}
		return []string{rawDec(r.NumShares), rawDec(r.AccumValuePerShare.AmountOf(w.d0)), rawDec(r.AccumValuePerShare.AmountOf(w.d1)),
			rawDec(r.UnclaimedRewardsTotal.AmountOf(w.d0)), rawDec(r.UnclaimedRewardsTotal.AmountOf(w.d1))}
	}
	for _, id := range w.allPositionIds() {
		p, _ := k.GetPosition(ctx, id)
		c0, c1 := "", ""
		tryQ(func() { // a panic inside a query (e.g. DecCoins.Sub "negative coin amount") is a failed query, as in the model
			if cr, err := k.GetClaimableSpreadRewards(ctx, id); err == nil {
				c0, c1 = cr.AmountOf(w.d0).String(), cr.AmountOf(w.d1).String()
			}
		})
		o.Pos = append(o.Pos, []string{fmt.Sprint(p.PositionId), fmt.Sprint(w.accIdx(p.Address)), fmt.Sprint(p.LowerTick), fmt.Sprint(p.UpperTick),
			rawDec(p.Liquidity), fmt.Sprint(p.JoinTime.Unix()), c0, c1})
		rr := recRow(spreadAcc, cltypes.KeySpreadRewardPositionAccumulator(id))
		for _, ua := range upAccs {
			rr = append(rr, recRow(ua, string(cltypes.KeyPositionId(id)))...)
		}
		o.PosRec = append(o.PosRec, rr)
		ci := []string{"", "", "", ""}
		tryQ(func() {
			if col, forf, err := k.GetClaimableIncentives(ctx, id); err == nil {
				ci = []string{col.AmountOf(w.d0).String(), col.AmountOf(w.d1).String(), forf.AmountOf(w.d0).String(), forf.AmountOf(w.d1).String()}
			}
		})
		o.PosInc = append(o.PosInc, ci)
	}
	o.UpAccum = [][]string{}
	for _, ua := range upAccs {
		v := ua.GetValue()
		o.UpAccum = append(o.UpAccum, []string{rawDec(v.AmountOf(w.d0)), rawDec(v.AmountOf(w.d1)), rawDec(ua.GetTotalShares())})
	}
	o.IncRecs = [][]string{}
	if recs, err := k.GetAllIncentiveRecordsForPool(ctx, w.poolId); err == nil {
		for _, r := range recs {
			ui := -1
			for i, u := range cltypes.SupportedUptimes {
				if u == r.MinUptime {
					ui = i
				}
			}
			di := 0
			if r.IncentiveRecordBody.RemainingCoin.Denom == w.d1 {
				di = 1
			}
			o.IncRecs = append(o.IncRecs, []string{fmt.Sprint(r.IncentiveId), fmt.Sprint(ui), fmt.Sprint(di), rawDec(r.IncentiveRecordBody.RemainingCoin.Amount),
				rawDec(r.IncentiveRecordBody.EmissionRate), fmt.Sprint(r.IncentiveRecordBody.StartTime.Unix())})
		}
	}
	o.RecsNow = [][]string{}
	_ = apph.Discard(ctx, func(c2 sdk.Context) {
		if err := k.UpdatePoolUptimeAccumulatorsToNow(c2, w.poolId); err != nil {
			return
		}
		if recs, err := k.GetAllIncentiveRecordsForPool(c2, w.poolId); err == nil {
			for _, r := range recs {
				di := 0
				if r.IncentiveRecordBody.RemainingCoin.Denom == w.d1 {
					di = 1
				}
				o.RecsNow = append(o.RecsNow, []string{fmt.Sprint(r.IncentiveId), fmt.Sprint(di), rawDec(r.IncentiveRecordBody.RemainingCoin.Amount)})
			}
		}
	})
	o.NextInc = k.GetNextIncentiveRecordId(ctx)
	o.LastUpd = pool.GetLastLiquidityUpdate().Unix()
	o.Uidx = [][]uint64{}
	for _, a := range w.accs {
		ps, err := k.GetUserPositions(ctx, a, w.poolId)
		if err != nil {
			panic(err)
		}
		ids := []uint64{}
		for _, p := range ps {
			ids = append(ids, p.PositionId)
		}
		o.Uidx = append(o.Uidx, ids)
	}
	o.AnyPos, err = k.HasAnyPositionForPool(ctx, w.poolId)
	if err != nil {
		panic(err)
	}
	o.NextId = k.GetNextPositionId(ctx)
	bk := w.h.App.BankKeeper
	addrs := []sdk.AccAddress{pool.GetAddress(), pool.GetSpreadRewardsAddress(), pool.GetIncentivesAddress()}
	addrs = append(addrs, w.accs...)
	o.Bal = [][]string{}
	for _, a := range addrs {
		o.Bal = append(o.Bal, []string{bk.GetBalance(ctx, a, w.d0).Amount.String(), bk.GetBalance(ctx, a, w.d1).Amount.String()})
	}
	sp := int64(pool.GetTickSpacing())
	b := o.Tick - ((o.Tick%sp)+sp)%sp
	o.Edge = []string{fmt.Sprint(b), "", fmt.Sprint(b + sp), ""}
	if s, err := clmath.TickToSqrtPrice(b); err == nil && b >= cltypes.MinInitializedTick && b <= cltypes.MaxTick {
		o.Edge[1] = rawBig(s)
	}
	if s, err := clmath.TickToSqrtPrice(b + sp); err == nil && b+sp >= cltypes.MinInitializedTick && b+sp <= cltypes.MaxTick {
		o.Edge[3] = rawBig(s)
	}
	o.Accum = []string{"0", "0", "0"}
	if acc, err := k.GetSpreadRewardAccumulator(ctx, w.poolId); err == nil {
		v := acc.GetValue()
		o.Accum = []string{rawDec(v.AmountOf(w.d0)), rawDec(v.AmountOf(w.d1)), rawDec(acc.GetTotalShares())}
	}
	o.Time = ctx.BlockTime().Unix()
}

// run executes f atomically (ValidateBasic first) and classifies the result
func (w *world) exec(o *obsStep, vb func() error, f func(ctx sdk.Context) error) {
	if vb != nil {
		if err := vb(); err != nil {
			o.Err, o.Etyp = 1, "ValidateBasic"
			return
		}
	}
	err := apph.Atomic(w.h.Ctx, f)
	o.Err, o.Etyp = errKind(err)
}

func (w *world) estimate(exactIn bool, zfo bool, amt osmomath.Int) (int, string) {
	k := w.h.App.ConcentratedLiquidityKeeper
	res := "0"
	var rerr error
	err := apph.Discard(w.h.Ctx, func(ctx sdk.Context) {
		poolI, err := k.GetPool(ctx, w.poolId)
		if err != nil {
			rerr = err
			return
		}
		din, dout := w.d0, w.d1
		if !zfo {
			din, dout = w.d1, w.d0
		}
		if exactIn {
			c, err := k.CalcOutAmtGivenIn(ctx, poolI, sdk.NewCoin(din, amt), dout, poolI.GetSpreadFactor(ctx))
			if err != nil {
				rerr = err
				return
			}
			res = c.Amount.String()
		} else {
			c, err := k.CalcInAmtGivenOut(ctx, poolI, sdk.NewCoin(dout, amt), din, poolI.GetSpreadFactor(ctx))
			if err != nil {
				rerr = err
				return
			}
			res = c.Amount.String()
		}
	})
	if err != nil {
		return 2, "0"
	}
	if rerr != nil {
		return 1, "0"
	}
	return 0, res
}

func (w *world) step(c caseIn, op opIn) obsStep {
	o := obsStep{Res: []string{}}
	k := w.h.App.ConcentratedLiquidityKeeper
	a := op.A
	if a < 0 || a >= len(w.accs) {
		a = 0
	}
	sender := w.accs[a]
	o.Rop = ropT{K: op.K, A: a}
	switch op.K {
	case "create":
		o.Rop.Lo, o.Rop.Hi, o.Rop.Amt0, o.Rop.Amt1 = op.Lo, op.Hi, bi(op.Amt0).String(), bi(op.Amt1).String()
		o.Rop.Min0, o.Rop.Min1 = bi(op.Min0).String(), bi(op.Min1).String()
		coins := sdk.NewCoins(sdk.NewCoin(w.d0, bi(op.Amt0)), sdk.NewCoin(w.d1, bi(op.Amt1)))
		msg := &cltypes.MsgCreatePosition{PoolId: w.poolId, Sender: sender.String(), LowerTick: op.Lo, UpperTick: op.Hi,
			TokensProvided: coins, TokenMinAmount0: bi(op.Min0), TokenMinAmount1: bi(op.Min1)}
		w.exec(&o, msg.ValidateBasic, func(ctx sdk.Context) error {
			r, err := w.clms.CreatePosition(ctx, msg)
			if err == nil {
				o.Res = []string{fmt.Sprint(r.PositionId), r.Amount0.String(), r.Amount1.String(), rawDec(r.LiquidityCreated), fmt.Sprint(r.LowerTick), fmt.Sprint(r.UpperTick)}
			}
			return err
		})
	case "create_at":
		// boundary coincidence: a position whose upper (Edge = "upper") or lower (Edge = "lower") tick is the pool's CURRENT tick
		// rounded down to the tick spacing (+ Off spacings), Wd spacings wide.  Resolved to a plain create.
		if pool, err := k.GetConcentratedPoolById(w.h.Ctx, w.poolId); err == nil {
			sp := int64(pool.GetTickSpacing())
			ct := pool.GetCurrentTick()
			m := ct - ((ct%sp)+sp)%sp + op.Off*sp
			wd := op.Wd
			if wd <= 0 {
				wd = 1
			}
			if op.Edge == "upper" {
				op.Lo, op.Hi = m-wd*sp, m
			} else {
				op.Lo, op.Hi = m, m+wd*sp
			}
			if op.Lo < cltypes.MinInitializedTick {
				op.Lo = cltypes.MinInitializedTick - ((cltypes.MinInitializedTick%sp)+sp)%sp + sp
			}
			if op.Hi > cltypes.MaxTick {
				op.Hi = cltypes.MaxTick - ((cltypes.MaxTick%sp)+sp)%sp
			}
		}
		op.K = "create"
		return w.step(c, op)
	case "balance":
		// make the NET liquidity of a shared boundary tick exactly zero while its gross stays positive: find a tick T that is the
		// upper boundary of some positions and the lower boundary of others, and withdraw |net(T)| from one position on the heavier
		// side (by its owner).  Resolved to a plain withdraw; falls back to an ordinary withdraw when there is no such tick.
		if id, liq, owner, ok := w.findBalance(op.Sel); ok {
			op.K, op.Id, op.Liq, op.Own, op.A = "withdraw", id, liq, false, owner
		} else {
			op.K, op.Own = "withdraw", true
			if op.Den == 0 {
				op.Num, op.Den = 1, 2
			}
		}
		return w.step(c, op)
	case "withdraw":
		id := w.selectPos(a, op.Sel, op.Own, op.Id)
		if op.Own && op.Id == 0 {
			if p, err := k.GetPosition(w.h.Ctx, id); err == nil && w.accIdx(p.Address) >= 0 {
				a = w.accIdx(p.Address)
				sender = w.accs[a]
			}
		}
		var liq osmomath.Dec
		if op.Liq != "" {
			liq = decRaw(op.Liq)
		} else {
			L := osmomath.ZeroDec()
			if p, err := k.GetPosition(w.h.Ctx, id); err == nil {
				L = p.Liquidity
			}
			den := op.Den
			if den == 0 {
				den = 1
			}
			v := new(big.Int).Mul(L.BigInt(), big.NewInt(op.Num))
			v.Quo(v, big.NewInt(den))
			liq = osmomath.NewDecFromBigIntWithPrec(v, 18)
		}
		o.Rop.A, o.Rop.Id, o.Rop.Liq = a, id, rawDec(liq)
		msg := &cltypes.MsgWithdrawPosition{PositionId: id, Sender: sender.String(), LiquidityAmount: liq}
		w.exec(&o, msg.ValidateBasic, func(ctx sdk.Context) error {
			r, err := w.clms.WithdrawPosition(ctx, msg)
			if err == nil {
				o.Res = []string{r.Amount0.String(), r.Amount1.String()}
			}
			return err
		})
	case "add":
		id := w.selectPos(a, op.Sel, op.Own, op.Id)
		if op.Own && op.Id == 0 {
			if p, err := k.GetPosition(w.h.Ctx, id); err == nil && w.accIdx(p.Address) >= 0 {
				a = w.accIdx(p.Address)
				sender = w.accs[a]
			}
		}
		o.Rop.A, o.Rop.Id, o.Rop.Amt0, o.Rop.Amt1 = a, id, bi(op.Amt0).String(), bi(op.Amt1).String()
		o.Rop.Min0, o.Rop.Min1 = bi(op.Min0).String(), bi(op.Min1).String()
		msg := &cltypes.MsgAddToPosition{PositionId: id, Sender: sender.String(), Amount0: bi(op.Amt0), Amount1: bi(op.Amt1),
			TokenMinAmount0: bi(op.Min0), TokenMinAmount1: bi(op.Min1)}
		w.exec(&o, msg.ValidateBasic, func(ctx sdk.Context) error {
			r, err := w.clms.AddToPosition(ctx, msg)
			if err == nil {
				o.Res = []string{fmt.Sprint(r.PositionId), r.Amount0.String(), r.Amount1.String()}
			}
			return err
		})
	case "transfer":
		ids := []uint64{}
		sels := op.Sels
		if len(sels) == 0 {
			sels = []int{op.Sel}
		}
		for _, s := range sels {
			id := w.selectPos(a, s, op.Own, 0)
			dup := false
			for _, x := range ids {
				if x == id {
					dup = true
				}
			}
			if !dup {
				ids = append(ids, id)
			}
		}
		if op.Id > 0 {
			ids = []uint64{op.Id}
		}
		if op.Own && len(ids) > 0 {
			if p, err := k.GetPosition(w.h.Ctx, ids[0]); err == nil && w.accIdx(p.Address) >= 0 {
				a = w.accIdx(p.Address)
				sender = w.accs[a]
			}
		}
		to := op.To
		if to < 0 || to >= len(w.accs) {
			to = 0
		}
		o.Rop.A, o.Rop.Ids, o.Rop.To = a, ids, to
		msg := &cltypes.MsgTransferPositions{PositionIds: ids, Sender: sender.String(), NewOwner: w.accs[to].String()}
		w.exec(&o, msg.ValidateBasic, func(ctx sdk.Context) error {
			_, err := w.clms.TransferPositions(ctx, msg)
			return err
		})
	case "swap_in", "swap_out", "swap_to_tick":
		din, dout := w.d0, w.d1
		if !op.Zfo {
			din, dout = w.d1, w.d0
		}
		amt := bi(op.Amt)
		lim := bi(op.Lim)
		kind := op.K
		if op.K == "swap_to_tick" {
			kind = "swap_in"
			n := op.N
			if n == 0 {
				n = 1
			}
			amt = osmomath.OneInt()
			_ = apph.Discard(w.h.Ctx, func(ctx sdk.Context) {
				mx, _, err := k.ComputeMaxInAmtGivenMaxTicksCrossed(ctx, w.poolId, din, n)
				if err == nil {
					amt = mx.Amount.AddRaw(op.Delta)
				}
			})
			if !amt.IsPositive() {
				amt = osmomath.OneInt()
			}
			lim = osmomath.OneInt()
		}
		o.Rop.K, o.Rop.Zfo, o.Rop.Amt, o.Rop.Lim = kind, op.Zfo, amt.String(), lim.String()
		if c.Est {
			e := &estT{Amt: "0", BackAmt: "0", Back2Amt: "0", BackErr: -1, Back2Err: -1}
			d1 := w.digest()
			e.Err, e.Amt = w.estimate(kind == "swap_in", op.Zfo, amt)
			e.Touched = w.digest() != d1
			o.Est = e
		}
		if kind == "swap_in" {
			msg := &pmtypes.MsgSwapExactAmountIn{Sender: sender.String(), Routes: []pmtypes.SwapAmountInRoute{{PoolId: w.poolId, TokenOutDenom: dout}},
				TokenIn: sdk.NewCoin(din, amt), TokenOutMinAmount: lim}
			w.exec(&o, msg.ValidateBasic, func(ctx sdk.Context) error {
				r, err := w.pmms.SwapExactAmountIn(ctx, msg)
				if err == nil {
					o.Res = []string{r.TokenOutAmount.String()}
				}
				return err
			})
		} else {
			msg := &pmtypes.MsgSwapExactAmountOut{Sender: sender.String(), Routes: []pmtypes.SwapAmountOutRoute{{PoolId: w.poolId, TokenInDenom: din}},
				TokenOut: sdk.NewCoin(dout, amt), TokenInMaxAmount: lim}
			w.exec(&o, msg.ValidateBasic, func(ctx sdk.Context) error {
				r, err := w.pmms.SwapExactAmountOut(ctx, msg)
				if err == nil {
					o.Res = []string{r.TokenInAmount.String()}
				}
				return err
			})
		}
		if c.Est && o.Err == 0 {
			// there and straight back: swap what was received (exact-in, other direction), on discarded contexts
			recv := amt
			if kind == "swap_in" {
				recv = bi(o.Res[0])
			}
			if recv.IsPositive() {
				o.Est.BackErr, o.Est.BackAmt = w.estimate(true, !op.Zfo, recv)
				o.Est.Back2Err, o.Est.Back2Amt = 1, "0"
				perr := apph.Discard(w.h.Ctx, func(ctx sdk.Context) {
					msg := &pmtypes.MsgSwapExactAmountIn{Sender: sender.String(), Routes: []pmtypes.SwapAmountInRoute{{PoolId: w.poolId, TokenOutDenom: din}},
						TokenIn: sdk.NewCoin(dout, recv), TokenOutMinAmount: osmomath.OneInt()}
					r, err := w.pmms.SwapExactAmountIn(ctx, msg)
					if err == nil {
						o.Est.Back2Err, o.Est.Back2Amt = 0, r.TokenOutAmount.String()
					}
				})
				if perr != nil {
					o.Est.Back2Err = 2
				}
			}
		}
	case "collect_spread", "collect_inc":
		ids := []uint64{}
		sels := op.Sels
		if len(sels) == 0 {
			sels = []int{op.Sel}
		}
		for _, s := range sels {
			ids = append(ids, w.selectPos(a, s, op.Own, 0))
		}
		if op.Id > 0 {
			ids = []uint64{op.Id}
		}
		if op.Own && len(ids) > 0 {
			if p, err := k.GetPosition(w.h.Ctx, ids[0]); err == nil && w.accIdx(p.Address) >= 0 {
				a = w.accIdx(p.Address)
				sender = w.accs[a]
			}
		}
		o.Rop.A, o.Rop.Ids = a, ids
		if op.K == "collect_spread" {
			msg := &cltypes.MsgCollectSpreadRewards{PositionIds: ids, Sender: sender.String()}
			w.exec(&o, msg.ValidateBasic, func(ctx sdk.Context) error {
				r, err := w.clms.CollectSpreadRewards(ctx, msg)
				if err == nil {
					o.Res = []string{r.CollectedSpreadRewards.AmountOf(w.d0).String(), r.CollectedSpreadRewards.AmountOf(w.d1).String()}
				}
				return err
			})
		} else {
			msg := &cltypes.MsgCollectIncentives{PositionIds: ids, Sender: sender.String()}
			w.exec(&o, msg.ValidateBasic, func(ctx sdk.Context) error {
				r, err := w.clms.CollectIncentives(ctx, msg)
				if err == nil {
					o.Res = []string{r.CollectedIncentives.AmountOf(w.d0).String(), r.CollectedIncentives.AmountOf(w.d1).String(),
						r.ForfeitedIncentives.AmountOf(w.d0).String(), r.ForfeitedIncentives.AmountOf(w.d1).String()}
				}
				return err
			})
		}
	case "incentive":
		den := w.d0
		if op.D == 1 {
			den = w.d1
		}
		ups := cltypes.SupportedUptimes
		u := op.U
		if u < 0 || u >= len(ups) {
			u = 0
		}
		o.Rop.D, o.Rop.Amt, o.Rop.Rate, o.Rop.U, o.Rop.Dt = op.D, bi(op.Amt).String(), op.Rate, u, op.Dt
		w.exec(&o, nil, func(ctx sdk.Context) error {
			_, err := k.CreateIncentive(ctx, w.poolId, sender, sdk.NewCoin(den, bi(op.Amt)), decRaw(op.Rate), ctx.BlockTime().Add(time.Duration(op.Dt)*time.Second), ups[u])
			return err
		})
	case "time":
		o.Rop.Dt = op.Dt
		w.h.Ctx = w.h.Ctx.WithBlockTime(w.h.Ctx.BlockTime().Add(time.Duration(op.Dt) * time.Second)).WithBlockHeight(w.h.Ctx.BlockHeight() + 1)
	default:
		o.Err, o.Etyp = 1, "unknown op"
	}
	w.dump(&o)
	return o
}

// exitAll: on a discarded branch of the current state every open position is fully withdrawn and all its rewards are
// collected, each message atomically, by the position's owner.  order 0: ascending ids, collect spread rewards, collect
// incentives, then withdraw; order 1: descending ids, withdraw only (a full withdrawal collects both kinds itself).
func (w *world) exitAll(order int) exitT {
	e := exitT{Order: order, Acts: [][]string{}, Bal: [][]string{}, Recs: []string{"0", "0"}}
	perr := apph.Discard(w.h.Ctx, func(ctx sdk.Context) {
		k := w.h.App.ConcentratedLiquidityKeeper
		save := w.h.Ctx
		w.h.Ctx = ctx
		ids := w.allPositionIds()
		w.h.Ctx = save
		if order == 1 {
			for i, j := 0, len(ids)-1; i < j; i, j = i+1, j-1 {
				ids[i], ids[j] = ids[j], ids[i]
			}
		}
		for _, id := range ids {
			p, err := k.GetPosition(ctx, id)
			if err != nil {
				e.Acts = append(e.Acts, []string{"w", fmt.Sprint(id), "1"})
				continue
			}
			owner := p.Address
			if order == 0 {
				act := []string{"cs", fmt.Sprint(id), "0", "0", "0"}
				err := apph.Atomic(ctx, func(c2 sdk.Context) error {
					r, err := w.clms.CollectSpreadRewards(c2, &cltypes.MsgCollectSpreadRewards{PositionIds: []uint64{id}, Sender: owner})
					if err == nil {
						act[3], act[4] = r.CollectedSpreadRewards.AmountOf(w.d0).String(), r.CollectedSpreadRewards.AmountOf(w.d1).String()
					}
					return err
				})
				ek, _ := errKind(err)
				act[2] = fmt.Sprint(ek)
				e.Acts = append(e.Acts, act)
				act2 := []string{"ci", fmt.Sprint(id), "0", "0", "0", "0", "0"}
				err = apph.Atomic(ctx, func(c2 sdk.Context) error {
					r, err := w.clms.CollectIncentives(c2, &cltypes.MsgCollectIncentives{PositionIds: []uint64{id}, Sender: owner})
					if err == nil {
						act2[3], act2[4] = r.CollectedIncentives.AmountOf(w.d0).String(), r.CollectedIncentives.AmountOf(w.d1).String()
						act2[5], act2[6] = r.ForfeitedIncentives.AmountOf(w.d0).String(), r.ForfeitedIncentives.AmountOf(w.d1).String()
					}
					return err
				})
				ek, _ = errKind(err)
				act2[2] = fmt.Sprint(ek)
				e.Acts = append(e.Acts, act2)
			}
			act3 := []string{"w", fmt.Sprint(id), "0", "0", "0"}
			err = apph.Atomic(ctx, func(c2 sdk.Context) error {
				r, err := w.clms.WithdrawPosition(c2, &cltypes.MsgWithdrawPosition{PositionId: id, Sender: owner, LiquidityAmount: p.Liquidity})
				if err == nil {
					act3[3], act3[4] = r.Amount0.String(), r.Amount1.String()
				}
				return err
			})
			ek, et := errKind(err)
			act3[2] = fmt.Sprint(ek)
			if ek != 0 {
				act3 = append(act3, et)
			}
			e.Acts = append(e.Acts, act3)
		}
		pool, err := k.GetConcentratedPoolById(ctx, w.poolId)
		if err != nil {
			panic(err)
		}
		bk := w.h.App.BankKeeper
		for _, a := range []sdk.AccAddress{pool.GetAddress(), pool.GetSpreadRewardsAddress(), pool.GetIncentivesAddress()} {
			e.Bal = append(e.Bal, []string{bk.GetBalance(ctx, a, w.d0).Amount.String(), bk.GetBalance(ctx, a, w.d1).Amount.String()})
		}
		save = w.h.Ctx
		w.h.Ctx = ctx
		e.Left = len(w.allPositionIds())
		w.h.Ctx = save
		sum := []*big.Int{new(big.Int), new(big.Int)}
		if recs, err := k.GetAllIncentiveRecordsForPool(ctx, w.poolId); err == nil {
			for _, r := range recs {
				di := 0
				if r.IncentiveRecordBody.RemainingCoin.Denom == w.d1 {
					di = 1
				}
				sum[di].Add(sum[di], r.IncentiveRecordBody.RemainingCoin.Amount.BigInt())
			}
		}
		e.Recs = []string{sum[0].String(), sum[1].String()}
	})
	if perr != nil {
		e.Acts = append(e.Acts, []string{"panic", "0", "2", perr.Error()})
	}
	return e
}

// tryQ runs a read-only query and turns a panic into "query failed"
func tryQ(f func()) {
	defer func() { _ = recover() }()
	f()
}

func runCase(t *testing.T, c caseIn) (out obsOut) {
	defer func() {
		if r := recover(); r != nil {
			out.Fatal = fmt.Sprintf("driver panic: %v", r)
		}
	}()
	h := apph.New(t)
	// the test helper starts the chain at the wall-clock time; histories are run from a fixed whole-second block time so
	// that observations are reproducible and every elapsed time is a whole number of seconds
	t0 := c.T0
	if t0 == 0 {
		t0 = 1700000000
	}
	h.Ctx = h.Ctx.WithBlockTime(time.Unix(t0, 0).UTC())
	w := &world{h: h, d0: c.Denom0, d1: c.Denom1}
	w.accs = h.TestAccs[:3]
	// zero taker fee: the swap route then hands the full amount to the concentrated-liquidity module
	h.App.PoolManagerKeeper.SetParam(h.Ctx, pmtypes.KeyDefaultTakerFee, osmomath.ZeroDec())
	// all authorised uptimes, so that incentive operations of later properties are possible
	clp := h.App.ConcentratedLiquidityKeeper.GetParams(h.Ctx)
	clp.AuthorizedUptimes = cltypes.SupportedUptimes
	h.App.ConcentratedLiquidityKeeper.SetParams(h.Ctx, clp)
	pool := h.PrepareCustomConcentratedPool(w.accs[0], c.Denom0, c.Denom1, c.Spacing, decRaw(c.Spread))
	w.poolId = pool.GetId()
	// the accumulator scaling factor is chosen by comparing the pool id with a stored migration threshold (genesis: 0, so
	// every new pool is scaled by 10^27); a threshold >= the pool id puts the pool on the unscaled side (the pool id is not in
	// the hard-coded migrated sets)
	if !c.SpreadScaled {
		h.App.ConcentratedLiquidityKeeper.SetSpreadFactorPoolIDMigrationThreshold(h.Ctx, w.poolId)
	}
	if !c.IncScaled {
		h.App.ConcentratedLiquidityKeeper.SetIncentivePoolIDMigrationThreshold(h.Ctx, w.poolId)
	}
	fund := bi(c.Fund)
	for _, a := range w.accs {
		h.FundAcc(a, sdk.NewCoins(sdk.NewCoin(c.Denom0, fund), sdk.NewCoin(c.Denom1, fund)))
	}
	w.clms = cl.NewMsgServerImpl(h.App.ConcentratedLiquidityKeeper)
	w.pmms = poolmanager.NewMsgServerImpl(h.App.PoolManagerKeeper)
	out.Init = obsStep{Res: []string{}}
	w.dump(&out.Init)
	out.Steps = []obsStep{}
	for _, op := range c.Ops {
		st := w.step(c, op)
		if c.Exits {
			st.Exit = []exitT{w.exitAll(0), w.exitAll(1)}
		}
		out.Steps = append(out.Steps, st)
	}
	return out
}

func TestDriver(t *testing.T) {
	apph.Serve(t, runCase)
}
