package apphtest

import (
	"testing"

	sdk "github.com/cosmos/cosmos-sdk/types"

	"verifharness/apph"
)

type c struct{ N int64 `json:"n"` }
type o struct{ Bal string `json:"bal"` }

func TestDriver(t *testing.T) {
	apph.Serve(t, func(t *testing.T, cs c) o {
		h := apph.New(t)
		h.FundAcc(h.TestAccs[0], sdk.NewCoins(sdk.NewInt64Coin("uosmo", cs.N)))
		return o{Bal: h.App.BankKeeper.GetBalance(h.Ctx, h.TestAccs[0], "uosmo").Amount.String()}
	})
}
