// C19 driver, part 2: the state every workload starts from (accounts, balances, pools, parameters that only
// governance can set) and the export / import machinery.
package c19drv

import (
	"bytes"
	"crypto/sha256"
	"encoding/hex"
	"encoding/json"
	"fmt"
	"sort"
	"strings"
	"time"

	"github.com/cosmos/cosmos-sdk/crypto/keys/ed25519"
	"github.com/cosmos/cosmos-sdk/crypto/keys/secp256k1"
	sdk "github.com/cosmos/cosmos-sdk/types"
	stakingkeeper "github.com/cosmos/cosmos-sdk/x/staking/keeper"
	stakingtypes "github.com/cosmos/cosmos-sdk/x/staking/types"

	"github.com/osmosis-labs/osmosis/osmomath"
	clmodel "github.com/osmosis-labs/osmosis/v31/x/concentrated-liquidity/model"
	"github.com/osmosis-labs/osmosis/v31/x/gamm/pool-models/balancer"
	"github.com/osmosis-labs/osmosis/v31/x/gamm/pool-models/stableswap"
	incentivestypes "github.com/osmosis-labs/osmosis/v31/x/incentives/types"
	poolmanagertypes "github.com/osmosis-labs/osmosis/v31/x/poolmanager/types"
	superfluidtypes "github.com/osmosis-labs/osmosis/v31/x/superfluid/types"
	txfeestypes "github.com/osmosis-labs/osmosis/v31/x/txfees/types"
)

type poolSpec struct {
	Kind    string   `json:"kind"` // balancer | stable | cl
	Denoms  []string `json:"denoms"`
	Amts    []string `json:"amts"`
	Weights []int64  `json:"weights"`
	Spread  string   `json:"spread"`
	Exit    string   `json:"exit"`
	Tick    uint64   `json:"tick"`
}

type setupSpec struct {
	Denoms    []string   `json:"denoms"`     // funded to every account
	Fund      string     `json:"fund"`       // amount of each
	Pools     []poolSpec `json:"pools"`      // created by account 0, ids 1..n in this order
	FeeTokens [][]string `json:"fee_tokens"` // [denom, pool id]
	MinDistr  string     `json:"min_distr"`  // incentives MinValueForDistribution in uosmo ("" = leave default)
	Protorev  [][]string `json:"protorev"`   // [base denom, other denom, pool id]: protorev's highest-liquidity pool of the pair
	Superfluid []string  `json:"superfluid"` // share denoms (gamm/pool/N, cl/pool/N) enabled for superfluid staking
	TakerFee   string    `json:"taker_fee"`  // poolmanager default taker fee ("" = leave the default 0)
	TakerShare [][]string `json:"taker_share"` // [denom, skim percent, account index]: taker fee share agreements
	ExtraVals  int       `json:"extra_vals"` // validators created in addition to the genesis validator
}

func mustInt(s string) osmomath.Int {
	v, ok := osmomath.NewIntFromString(s)
	if !ok {
		panic("bad int " + s)
	}
	return v
}

func mustDec(s string) osmomath.Dec {
	if s == "" {
		return osmomath.ZeroDec()
	}
	return osmomath.MustNewDecFromStr(s)
}

// perm: a permutation of 0..n-1 that depends on the variant only (identity for variant 0)
func perm(n, variant int) []int {
	p := make([]int, n)
	for i := range p {
		p[i] = i
	}
	if variant%2 == 1 {
		for i, j := 0, n-1; i < j; i, j = i+1, j-1 {
			p[i], p[j] = p[j], p[i]
		}
	}
	return p
}

func (c *chain) setup(tc tcase) {
	a := c.App
	s := tc.Setup
	c.TestAccs = nil
	for i := 0; i < tc.NAcc; i++ {
		c.TestAccs = append(c.TestAccs, c.accAddr(i))
	}
	// accounts come into existence in index order (account numbers are state) ...
	for i := 0; i < tc.NAcc; i++ {
		c.FundAcc(c.TestAccs[i], sdk.NewCoins(sdk.NewInt64Coin("uosmo", 1)))
	}
	// ... the bulk of the funds arrives in an order that depends on the variant (commutative: balances and supply add up)
	amt := mustInt(s.Fund)
	for _, i := range perm(tc.NAcc, tc.Variant) {
		for _, j := range perm(len(s.Denoms), tc.Variant) {
			c.FundAcc(c.TestAccs[i], sdk.NewCoins(sdk.NewCoin(s.Denoms[j], amt)))
		}
	}
	c.SetupConcentratedLiquidityDenomsAndPoolCreation()
	for i := 0; i < s.ExtraVals; i++ {
		pk := ed25519.GenPrivKeyFromSecret([]byte(fmt.Sprintf("c19-validator-%d", i+1))).PubKey()
		op := sdk.AccAddress(secp256k1.GenPrivKeyFromSecret([]byte(fmt.Sprintf("c19-operator-%d", i+1))).PubKey().Address())
		self := sdk.NewCoin(sdk.DefaultBondDenom, sdk.DefaultPowerReduction.MulRaw(int64(2+i)))
		c.FundAcc(op, sdk.NewCoins(self))
		zero := osmomath.ZeroDec()
		msg, err := stakingtypes.NewMsgCreateValidator(sdk.ValAddress(op).String(), pk, self,
			stakingtypes.NewDescription(fmt.Sprintf("v%d", i+1), "", "", "", ""), stakingtypes.NewCommissionRates(zero, zero, zero), osmomath.OneInt())
		if err != nil {
			panic(err)
		}
		if _, err := stakingkeeper.NewMsgServerImpl(a.StakingKeeper).CreateValidator(c.Ctx, msg); err != nil {
			panic(fmt.Sprintf("create validator %d: %v", i+1, err))
		}
	}
	// incentives are distributed at the end of the day epoch (the default genesis says "week"); set before any pool
	// exists: pool-incentives' ExportGenesis looks a concentrated pool's gauge up by the *current* epoch duration
	a.IncentivesKeeper.SetParam(c.Ctx, incentivestypes.KeyDistrEpochIdentifier, "day")
	creator := c.TestAccs[0]
	for pi, p := range s.Pools {
		var id uint64
		var err error
		switch p.Kind {
		case "balancer":
			assets := []balancer.PoolAsset{}
			for i, d := range p.Denoms {
				assets = append(assets, balancer.PoolAsset{Weight: osmomath.NewInt(p.Weights[i]), Token: sdk.NewCoin(d, mustInt(p.Amts[i]))})
			}
			msg := balancer.NewMsgCreateBalancerPool(creator, balancer.PoolParams{SwapFee: mustDec(p.Spread), ExitFee: mustDec(p.Exit)}, assets, "")
			id, err = a.PoolManagerKeeper.CreatePool(c.Ctx, msg)
		case "stable":
			coins := sdk.Coins{}
			sf := []uint64{}
			for i, d := range p.Denoms {
				coins = coins.Add(sdk.NewCoin(d, mustInt(p.Amts[i])))
				sf = append(sf, 1)
			}
			msg := stableswap.NewMsgCreateStableswapPool(creator, stableswap.PoolParams{SwapFee: mustDec(p.Spread), ExitFee: mustDec(p.Exit)}, coins, sf, "")
			id, err = a.PoolManagerKeeper.CreatePool(c.Ctx, msg)
		case "cl":
			msg := clmodel.NewMsgCreateConcentratedPool(creator, p.Denoms[0], p.Denoms[1], p.Tick, mustDec(p.Spread))
			id, err = a.PoolManagerKeeper.CreatePool(c.Ctx, msg)
			if err == nil && len(p.Amts) == 2 {
				coins := sdk.NewCoins(sdk.NewCoin(p.Denoms[0], mustInt(p.Amts[0])), sdk.NewCoin(p.Denoms[1], mustInt(p.Amts[1])))
				_, err = a.ConcentratedLiquidityKeeper.CreateFullRangePosition(c.Ctx, id, creator, coins)
			}
		default:
			panic("pool kind " + p.Kind)
		}
		if err != nil {
			panic(fmt.Sprintf("setup pool %d (%s): %v", pi, p.Kind, err))
		}
		if id != uint64(pi+1) {
			panic(fmt.Sprintf("setup pool %d got id %d", pi, id))
		}
	}
	if len(s.FeeTokens) > 0 {
		fts := []txfeestypes.FeeToken{}
		for _, ft := range s.FeeTokens {
			fts = append(fts, txfeestypes.FeeToken{Denom: ft[0], PoolID: mustInt(ft[1]).Uint64()})
		}
		if err := a.TxFeesKeeper.SetFeeTokens(c.Ctx, fts); err != nil {
			panic(err)
		}
	}
	for _, pr := range s.Protorev {
		a.ProtoRevKeeper.SetPoolForDenomPair(c.Ctx, pr[0], pr[1], mustInt(pr[2]).Uint64())
	}
	if s.TakerFee != "" {
		a.PoolManagerKeeper.SetParam(c.Ctx, poolmanagertypes.KeyDefaultTakerFee, mustDec(s.TakerFee))
	}
	if len(s.Superfluid) > 0 {
		// superfluid delegation creates a gauge over the unbonding time, which must be a lockable duration
		up, err := a.StakingKeeper.GetParams(c.Ctx)
		if err != nil {
			panic(err)
		}
		a.IncentivesKeeper.SetLockableDurations(c.Ctx, append(a.IncentivesKeeper.GetLockableDurations(c.Ctx), up.UnbondingTime))
		for _, d := range s.Superfluid {
			at := superfluidtypes.SuperfluidAssetTypeLPShare
			if strings.HasPrefix(d, "cl/") {
				at = superfluidtypes.SuperfluidAssetTypeConcentratedShare
			}
			if err := a.SuperfluidKeeper.AddNewSuperfluidAsset(c.Ctx, superfluidtypes.SuperfluidAsset{Denom: d, AssetType: at}); err != nil {
				panic(fmt.Sprintf("superfluid asset %s: %v", d, err))
			}
		}
	}
	if s.MinDistr != "" {
		a.IncentivesKeeper.SetParam(c.Ctx, incentivestypes.KeyMinValueForDistr, sdk.NewCoin("uosmo", mustInt(s.MinDistr)))
	}
	_ = time.Second
}

// lateSetup runs after the first block has been committed: governance-only messages through the registered message
// servers, as a passed proposal would execute them.
// Taker-fee share agreements: the poolmanager AppModule holds its own COPY of the keeper
// (poolmanager.NewAppModule(*app.PoolManagerKeeper, ...)) and the agreements are cached in a map field that BeginBlock
// re-assigns on that copy only. Before the first BeginBlock the copy still shares the map with app.PoolManagerKeeper,
// so an agreement set earlier would also reach the keeper that gamm / superfluid / protorev use - a state of the
// process that a restarted or re-imported node never has.
func (c *chain) lateSetup(tc tcase) {
	gov := c.App.AccountKeeper.GetModuleAddress("gov").String()
	for _, ts := range tc.Setup.TakerShare {
		msg := &poolmanagertypes.MsgSetTakerFeeShareAgreementForDenom{Sender: gov, Denom: ts[0], SkimPercent: mustDec(ts[1]),
			SkimAddress: c.accAddr(int(mustInt(ts[2]).Int64())).String()}
		if _, err := c.RunMsg(msg); err != nil {
			panic(fmt.Sprintf("taker fee share agreement %v: %v", ts, err))
		}
	}
}

// ---- export --------------------------------------------------------------------------------------------

func (c *chain) exportModules() map[string]json.RawMessage {
	return c.App.ExportState(c.Ctx)
}

func digestOf(m map[string]json.RawMessage) map[string]string {
	out := map[string]string{}
	for k, v := range m {
		d := sha256.Sum256(v)
		out[k] = hex.EncodeToString(d[:8])
	}
	return out
}

func (c *chain) exportDigests() map[string]string { return digestOf(c.exportModules()) }

func (c *chain) exportDigestAll() string {
	m := c.exportModules()
	keys := []string{}
	for k := range m {
		keys = append(keys, k)
	}
	sort.Strings(keys)
	h := sha256.New()
	for _, k := range keys {
		h.Write([]byte(k))
		h.Write(m[k])
	}
	return hex.EncodeToString(h.Sum(nil)[:8])
}

// allDiffs: every JSON path at which two documents differ, with both values (shortened); at most 40
func allDiffs(a, b []byte) []string {
	var x, y interface{}
	da := json.NewDecoder(bytes.NewReader(a))
	da.UseNumber()
	db := json.NewDecoder(bytes.NewReader(b))
	db.UseNumber()
	if da.Decode(&x) != nil || db.Decode(&y) != nil {
		return []string{"undecodable"}
	}
	out := []string{}
	diffVal("", x, y, &out)
	if len(out) == 0 {
		out = append(out, ": byte-level difference only (key order / formatting)")
	}
	return out
}

func short(v interface{}) string {
	b, _ := json.Marshal(v)
	if len(b) > 160 {
		return string(b[:160]) + "..."
	}
	return string(b)
}

func diffVal(path string, x, y interface{}, out *[]string) {
	if len(*out) >= 40 {
		return
	}
	switch xv := x.(type) {
	case map[string]interface{}:
		yv, ok := y.(map[string]interface{})
		if !ok {
			*out = append(*out, fmt.Sprintf("%s: %s vs %s", path, short(x), short(y)))
			return
		}
		keys := map[string]bool{}
		for k := range xv {
			keys[k] = true
		}
		for k := range yv {
			keys[k] = true
		}
		ks := []string{}
		for k := range keys {
			ks = append(ks, k)
		}
		sort.Strings(ks)
		for _, k := range ks {
			xa, okx := xv[k]
			ya, oky := yv[k]
			if !okx || !oky {
				*out = append(*out, fmt.Sprintf("%s.%s: present=%v vs present=%v", path, k, okx, oky))
				continue
			}
			diffVal(path+"."+k, xa, ya, out)
		}
	case []interface{}:
		yv, ok := y.([]interface{})
		if !ok {
			*out = append(*out, fmt.Sprintf("%s: %s vs %s", path, short(x), short(y)))
			return
		}
		// lists of records are aligned by their identifying field, so that one missing or moved record is
		// reported as such instead of shifting every later index
		if key := alignKey(xv, yv); key != "" {
			xi, xo := indexBy(xv, key)
			yi, yo := indexBy(yv, key)
			for _, id := range xo {
				if _, ok := yi[id]; !ok {
					*out = append(*out, fmt.Sprintf("%s[%s=%s]: present=true vs present=false", path, key, id))
				}
			}
			for _, id := range yo {
				if _, ok := xi[id]; !ok {
					*out = append(*out, fmt.Sprintf("%s[%s=%s]: present=false vs present=true", path, key, id))
				}
			}
			common := []string{}
			for _, id := range xo {
				if _, ok := yi[id]; ok {
					common = append(common, id)
					diffVal(fmt.Sprintf("%s[%s=%s]", path, key, id), xi[id], yi[id], out)
				}
			}
			j := 0
			for _, id := range yo {
				if _, ok := xi[id]; !ok {
					continue
				}
				if j < len(common) && common[j] != id {
					*out = append(*out, fmt.Sprintf("%s<order>: the common records are listed in a different order (first at %s=%s vs %s)", path, key, common[j], id))
					break
				}
				j++
			}
			return
		}
		if len(xv) != len(yv) {
			*out = append(*out, fmt.Sprintf("%s: length %d vs %d", path, len(xv), len(yv)))
		}
		for i := 0; i < len(xv) && i < len(yv); i++ {
			diffVal(fmt.Sprintf("%s[%d]", path, i), xv[i], yv[i], out)
		}
	default:
		if short(x) != short(y) {
			*out = append(*out, fmt.Sprintf("%s: %s vs %s", path, short(x), short(y)))
		}
	}
}

var alignKeys = []string{"id", "ID", "identifier", "lock_id", "position_id", "gauge_id", "underlying_lock_id", "address", "denom", "pool_id", "name", "key", "index"}

// alignKey: a field present in every element of both lists whose values are unique within each list
func alignKey(xv, yv []interface{}) string {
	if len(xv)+len(yv) == 0 {
		return ""
	}
	for _, k := range alignKeys {
		ok := true
		for _, l := range [][]interface{}{xv, yv} {
			seen := map[string]bool{}
			for _, e := range l {
				m, isM := e.(map[string]interface{})
				if !isM {
					return ""
				}
				v, has := m[k]
				if !has {
					ok = false
					break
				}
				sv := short(v)
				if seen[sv] {
					ok = false
					break
				}
				seen[sv] = true
			}
			if !ok {
				break
			}
		}
		if ok {
			return k
		}
	}
	return ""
}

func indexBy(l []interface{}, key string) (map[string]interface{}, []string) {
	m := map[string]interface{}{}
	order := []string{}
	for _, e := range l {
		id := short(e.(map[string]interface{})[key])
		m[id] = e
		order = append(order, id)
	}
	return m, order
}
