// C19 driver, part 1: a fresh chain whose genesis is a function of nothing but constants (validator key,
// genesis account, genesis time), so that two processes start from bit-identical state. The repo's own
// test setup (app.SetupWithCustomHome + apptesting.KeeperTestHelper.Setup) draws the validator key, the
// genesis account and the start time from crypto/rand and time.Now(), which would make every app hash differ
// between two processes for reasons that have nothing to do with the code under test.
package c19drv

import (
	"encoding/json"
	"fmt"
	"os"
	"testing"
	"time"

	"cosmossdk.io/log"
	sdkmath "cosmossdk.io/math"
	abci "github.com/cometbft/cometbft/abci/types"
	cmtproto "github.com/cometbft/cometbft/proto/tendermint/types"
	tmtypes "github.com/cometbft/cometbft/types"
	cosmosdb "github.com/cosmos/cosmos-db"
	"github.com/cosmos/cosmos-sdk/baseapp"
	codectypes "github.com/cosmos/cosmos-sdk/codec/types"
	cryptocodec "github.com/cosmos/cosmos-sdk/crypto/codec"
	"github.com/cosmos/cosmos-sdk/crypto/keys/ed25519"
	"github.com/cosmos/cosmos-sdk/crypto/keys/secp256k1"
	"github.com/cosmos/cosmos-sdk/testutil/mock"
	servertypes "github.com/cosmos/cosmos-sdk/server/types"
	sims "github.com/cosmos/cosmos-sdk/testutil/sims"
	"github.com/cosmos/cosmos-sdk/x/crisis"
	sdk "github.com/cosmos/cosmos-sdk/types"
	authtypes "github.com/cosmos/cosmos-sdk/x/auth/types"
	banktypes "github.com/cosmos/cosmos-sdk/x/bank/types"
	slashingtypes "github.com/cosmos/cosmos-sdk/x/slashing/types"
	stakingtypes "github.com/cosmos/cosmos-sdk/x/staking/types"

	"github.com/osmosis-labs/osmosis/osmomath"
	osmoapp "github.com/osmosis-labs/osmosis/v31/app"

	"verifharness/apph"
)

const chainID = "osmosis-1"

// genesis time: a constant (2024-01-01T00:00:00Z)
var genesisTime = time.Unix(1704067200, 0).UTC()

func valPrivKey() *ed25519.PrivKey { return ed25519.GenPrivKeyFromSecret([]byte("c19-validator-0")) }

func accKey(i int) *secp256k1.PrivKey {
	return secp256k1.GenPrivKeyFromSecret([]byte("c19-account-" + string(rune('a'+i))))
}

// deterministicGenesis mirrors app.GenesisStateWithValSet with constant keys.
func deterministicGenesis(a *osmoapp.OsmosisApp) osmoapp.GenesisState {
	privVal := mock.PV{PrivKey: valPrivKey()}
	pubKey, _ := privVal.GetPubKey()
	validator := tmtypes.NewValidator(pubKey, 1)
	valSet := tmtypes.NewValidatorSet([]*tmtypes.Validator{validator})

	senderPrivKey := secp256k1.GenPrivKeyFromSecret([]byte("c19-genesis-account"))
	acc := authtypes.NewBaseAccountWithAddress(senderPrivKey.PubKey().Address().Bytes())

	balances := []banktypes.Balance{}
	genesisState := osmoapp.NewDefaultGenesisState()
	genAccs := []authtypes.GenesisAccount{acc}
	authGenesis := authtypes.NewGenesisState(authtypes.DefaultParams(), genAccs)
	genesisState[authtypes.ModuleName] = a.AppCodec().MustMarshalJSON(authGenesis)

	validators := make([]stakingtypes.Validator, 0, len(valSet.Validators))
	delegations := make([]stakingtypes.Delegation, 0, len(valSet.Validators))
	bondAmt := sdk.DefaultPowerReduction
	for _, val := range valSet.Validators {
		pk, _ := cryptocodec.FromCmtPubKeyInterface(val.PubKey)
		pkAny, _ := codectypes.NewAnyWithValue(pk)
		validator := stakingtypes.Validator{
			OperatorAddress:   sdk.ValAddress(val.Address).String(),
			ConsensusPubkey:   pkAny,
			Jailed:            false,
			Status:            stakingtypes.Bonded,
			Tokens:            bondAmt,
			DelegatorShares:   osmomath.OneDec(),
			Description:       stakingtypes.Description{},
			UnbondingHeight:   int64(0),
			UnbondingTime:     time.Unix(0, 0).UTC(),
			Commission:        stakingtypes.NewCommission(osmomath.ZeroDec(), osmomath.ZeroDec(), osmomath.ZeroDec()),
			MinSelfDelegation: sdkmath.ZeroInt(),
		}
		validators = append(validators, validator)
		delegations = append(delegations, stakingtypes.NewDelegation(genAccs[0].GetAddress().String(), sdk.ValAddress(val.Address).String(), osmomath.OneDec()))
	}
	stakingGenesis := stakingtypes.NewGenesisState(stakingtypes.DefaultParams(), validators, delegations)
	genesisState[stakingtypes.ModuleName] = a.AppCodec().MustMarshalJSON(stakingGenesis)

	totalSupply := sdk.NewCoins()
	for range delegations {
		totalSupply = totalSupply.Add(sdk.NewCoin(sdk.DefaultBondDenom, bondAmt))
	}
	balances = append(balances, banktypes.Balance{
		Address: authtypes.NewModuleAddress(stakingtypes.BondedPoolName).String(),
		Coins:   sdk.Coins{sdk.NewCoin(sdk.DefaultBondDenom, bondAmt)},
	})
	bankGenesis := banktypes.NewGenesisState(banktypes.DefaultGenesisState().Params, balances, totalSupply, []banktypes.Metadata{}, []banktypes.SendEnabled{})
	genesisState[banktypes.ModuleName] = a.AppCodec().MustMarshalJSON(bankGenesis)
	return genesisState
}

// skipInv: the node option --x-crisis-skip-assert-invariants (crisis InitGenesis does not assert the invariants)
type skipInv struct{}

func (skipInv) Get(o string) interface{} {
	if o == crisis.FlagSkipGenesisInvariants {
		return true
	}
	return nil
}

func newAppOpts(t *testing.T, skipGenesisInvariants bool) *osmoapp.OsmosisApp {
	return newAppOn(t, cosmosdb.NewMemDB(), skipGenesisInvariants)
}

// newAppOn builds an application over the given database and loads its latest committed version (what a node does when
// it starts); every in-memory structure of the keepers starts empty
func newAppOn(t *testing.T, db cosmosdb.DB, skipGenesisInvariants bool) *osmoapp.OsmosisApp {
	dir, err := os.MkdirTemp("", "c19-home")
	if err != nil {
		panic(err)
	}
	t.Cleanup(func() { os.RemoveAll(dir) })
	var opts servertypes.AppOptions = sims.EmptyAppOptions{}
	if skipGenesisInvariants {
		opts = skipInv{}
	}
	return osmoapp.NewOsmosisApp(log.NewNopLogger(), db, nil, true, map[int64]bool{}, dir, 0,
		opts, osmoapp.EmptyWasmOpts, baseapp.SetChainID(chainID))
}

func newApp(t *testing.T) *osmoapp.OsmosisApp {
	dir, err := os.MkdirTemp("", "c19-home")
	if err != nil {
		panic(err)
	}
	t.Cleanup(func() { os.RemoveAll(dir) })
	return osmoapp.NewOsmosisApp(log.NewNopLogger(), cosmosdb.NewMemDB(), nil, true, map[int64]bool{}, dir, 0,
		sims.EmptyAppOptions{}, osmoapp.EmptyWasmOpts, baseapp.SetChainID(chainID))
}

// chain = the repo's KeeperTestHelper around an app we initialised ourselves
type chain struct {
	*apph.Helper
	height int64
	now    time.Time
	db     cosmosdb.DB
	t      *testing.T
}

// restart: what a node does when it is stopped and started again between two blocks - a new application instance over
// the same database, loading the latest committed version. Every in-memory cache of the keepers starts empty.
func (c *chain) restart() {
	a := newAppOn(c.t, c.db, false)
	if a.LastBlockHeight() != c.height-1 {
		panic(fmt.Sprintf("restart: loaded height %d, expected %d", a.LastBlockHeight(), c.height-1))
	}
	c.App = a
	c.Ctx = a.BaseApp.NewUncachedContext(false, cmtproto.Header{Height: c.height, ChainID: chainID, Time: c.now})
}

func attach(t *testing.T, a *osmoapp.OsmosisApp, height int64, now time.Time) *chain {
	h := &apph.Helper{}
	h.SetT(t)
	h.App = a
	c := &chain{Helper: h, height: height, now: now}
	c.Ctx = a.BaseApp.NewContextLegacy(false, cmtproto.Header{Height: height, ChainID: chainID, Time: now})
	return c
}

// newChain: InitChain from the constant genesis; the context is the one of the first block (height 1).
func newChain(t *testing.T) *chain {
	db := cosmosdb.NewMemDB()
	a := newAppOn(t, db, false)
	gs := deterministicGenesis(a)
	bz, err := json.Marshal(gs)
	if err != nil {
		panic(err)
	}
	_, err = a.InitChain(&abci.RequestInitChain{
		Time:            genesisTime,
		Validators:      []abci.ValidatorUpdate{},
		ConsensusParams: sims.DefaultConsensusParams,
		AppStateBytes:   bz,
		ChainId:         chainID,
	})
	if err != nil {
		panic(err)
	}
	c := attach(t, a, 1, genesisTime)
	c.db, c.t = db, t
	c.SetEpochStartTime()
	// as KeeperTestHelper.Setup does: validator signing info, otherwise slashing's BeginBlocker fails
	vals, err := a.StakingKeeper.GetAllValidators(c.Ctx)
	if err != nil {
		panic(err)
	}
	for _, val := range vals {
		consAddr, _ := val.GetConsAddr()
		si := slashingtypes.NewValidatorSigningInfo(consAddr, c.Ctx.BlockHeight(), time.Unix(0, 0), false, 0)
		if err := a.SlashingKeeper.SetValidatorSigningInfo(c.Ctx, consAddr, si); err != nil {
			panic(err)
		}
	}
	return c
}
