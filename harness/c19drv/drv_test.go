// C19 driver: executes a generated multi-module workload on the real application (FinalizeBlock with signed
// transactions + Commit, i.e. ante handlers, message servers, post handlers, begin/end blockers, epoch hooks)
// and prints, per block, the committed app hash, every store's commit hash, the ordered block events and,
// per transaction, code / codespace / gas / data / ordered events. The check runs every workload in two
// fresh processes and compares the outputs; Go randomises map iteration per process and per loop, so an
// order-dependent site shows up as a difference.
//
// Messages arrive as proto-JSON (the app codec decodes them, so every module's messages are available without
// per-message glue) with placeholders that the driver resolves against chain state:
//   $ACC(i) account i          $VAL(i) validator operator i      $MOD(name) module account address
//   $LOCKOF(i,r) r-th lock of account i (0 if none)   $POSOF(i,r) r-th CL position of account i
//   $LOCK(r) $POS(r) $GAUGE(r) $POOL(r)  any existing id, chosen by r modulo the number of ids
//   $NEXTPOOL(k) the id the next created pool will get, plus k     $LASTPOOL(k) the newest pool id minus k
package c19drv

import (
	"bytes"
	"context"
	"crypto/sha256"
	"encoding/hex"
	"encoding/json"
	"fmt"
	"regexp"
	"runtime"
	"runtime/debug"
	"sort"
	"strconv"
	"strings"
	"testing"
	"time"

	sdkmath "cosmossdk.io/math"
	abci "github.com/cometbft/cometbft/abci/types"
	cmtproto "github.com/cometbft/cometbft/proto/tendermint/types"
	"github.com/cosmos/cosmos-sdk/client"
	cryptotypes "github.com/cosmos/cosmos-sdk/crypto/types"
	sdk "github.com/cosmos/cosmos-sdk/types"
	"github.com/cosmos/cosmos-sdk/types/tx/signing"
	authsign "github.com/cosmos/cosmos-sdk/x/auth/signing"
	authtypes "github.com/cosmos/cosmos-sdk/x/auth/types"

	osmoapp "github.com/osmosis-labs/osmosis/v31/app"
	lockuptypes "github.com/osmosis-labs/osmosis/v31/x/lockup/types"

	"verifharness/apph"
)

type txSpec struct {
	Acc      int               `json:"acc"`
	Msgs     []json.RawMessage `json:"msgs"`
	Gas      uint64            `json:"gas"`
	FeeDenom string            `json:"fee_denom"`
	FeeAmt   string            `json:"fee_amt"`
}

type blockSpec struct {
	Dt  int64    `json:"dt"` // seconds added to the block time before this block
	Txs []txSpec `json:"txs"`
}

type tcase struct {
	Name     string      `json:"name"`
	Variant  int         `json:"variant"` // process-level perturbation: GOMAXPROCS, GC pressure, order of commutative harness actions
	NAcc     int         `json:"nacc"`
	Setup    setupSpec   `json:"setup"`
	Blocks   []blockSpec `json:"blocks"`
	ExportAt []int       `json:"export_at"` // after these block indices: export -> fresh app InitChain -> compare + replay the rest
	// raw-state differences between the original and the re-imported chain that the check already knows about
	// ([store, regexp on "<kind>", regexp on the key in hex]); the driver reports them and then copies the original's
	// entries over, so that the replay of the remaining history is not dominated by their consequences
	KVKnown [][]string `json:"kv_known"`
	// after these block indices the node is stopped and started again (new application instance over the same database)
	RestartAt []int `json:"restart_at"`
	// run read-only queries (keeper getters on a query context and gRPC queries) after every block
	Queries bool `json:"queries"`
}

type txObs struct {
	Code      uint32   `json:"code"`
	Codespace string   `json:"cs,omitempty"`
	GasUsed   int64    `json:"gu"`
	GasWanted int64    `json:"gw"`
	Data      string   `json:"data,omitempty"`
	Log       string   `json:"log,omitempty"`
	Events    []string `json:"ev"`
	Kinds     []string `json:"kinds"`
	Bad       string   `json:"bad,omitempty"` // the driver could not build the tx (malformed spec)
}

type blockObs struct {
	Height  int64             `json:"h"`
	Time    int64             `json:"t"`
	AppHash string            `json:"app"`
	Stores  map[string]string `json:"stores"`
	Events  []string          `json:"ev"`
	Txs     []txObs           `json:"txs"`
	ValUpd  int               `json:"vu"`
}

type exportObs struct {
	At      int               `json:"at"`  // exported after this block index
	Err     string            `json:"err,omitempty"`
	Height  int64             `json:"height"`
	InitDef string            `json:"init_default,omitempty"` // InitChain with the default node options failed with this
	InvOrig string            `json:"inv_orig,omitempty"`     // a registered invariant is broken on the original chain at the export point
	InvRe   string            `json:"inv_reimp,omitempty"`    // ... on the re-imported chain after InitChain completed
	KV      []kvDiff          `json:"kv,omitempty"`           // raw key/value differences original vs re-imported
	KVLeft  int               `json:"kv_left"`                // differences remaining after the known ones were patched
	TimeNs  int64             `json:"time_ns"`                // block time of the import
	ProbeOrig  map[string]string `json:"probe_orig,omitempty"`  // query observables on the original chain at the export point
	ProbeRe    map[string]string `json:"probe_reimp,omitempty"` // ... on the re-imported chain right after InitChain
	ProbeFinO  map[string]string `json:"probe_final_orig,omitempty"`  // ... at the end of the history
	ProbeFinRe map[string]string `json:"probe_final_reimp,omitempty"`
	FinalKV []kvDiff          `json:"final_kv,omitempty"`     // raw differences at the end of the history (after the replay)
	RawOrig map[string]json.RawMessage `json:"raw_orig,omitempty"`  // exported genesis of the modules the Coq model covers
	RawRe   map[string]json.RawMessage `json:"raw_reimp,omitempty"` // ... after the round trip
	Sizes   map[string]int    `json:"sizes"`   // module -> bytes of exported genesis
	Orig    map[string]string `json:"orig"`    // module -> sha256 of its exported genesis (proto-JSON) on the original chain
	Reimp   map[string]string `json:"reimp"`   // the same after import into a fresh app and export again
	Diff    map[string][]string `json:"diff"`    // module -> first differing JSON path with both values
	Tail    []blockObs        `json:"tail"`    // the remaining history executed on the re-imported chain
	FinalRe map[string]string `json:"final_reimp"`
	FinalDf map[string][]string `json:"final_diff"` // vs the original chain's final export
}

type obs struct {
	Name    string      `json:"name"`
	Variant int         `json:"variant"`
	Err     string      `json:"err,omitempty"`
	SetupH  string      `json:"setup_digest"`
	Blocks  []blockObs  `json:"blocks"`
	Exports []*exportObs `json:"exports,omitempty"`
	Final   map[string]string `json:"final"` // module -> sha256 of exported genesis after the last block
	Restarts []int            `json:"restarts,omitempty"`
}

func TestDriver(t *testing.T) {
	apph.Serve(t, func(t *testing.T, c tcase) (o obs) {
		defer func() {
			if r := recover(); r != nil {
				o = obs{Name: c.Name, Variant: c.Variant, Err: fmt.Sprintf("driver panic: %v\n%s", r, string(debug.Stack()))}
			}
		}()
		return run(t, c)
	})
}

func evStrings(evs []abci.Event) []string {
	out := make([]string, 0, len(evs))
	for _, e := range evs {
		var sb strings.Builder
		sb.WriteString(e.Type)
		sb.WriteString("{")
		for i, a := range e.Attributes {
			if i > 0 {
				sb.WriteString(",")
			}
			sb.WriteString(a.Key)
			sb.WriteString("=")
			sb.WriteString(a.Value)
		}
		sb.WriteString("}")
		out = append(out, sb.String())
	}
	return out
}

func (c *chain) accAddr(i int) sdk.AccAddress { return sdk.AccAddress(accKey(i).PubKey().Address()) }

var phRe = regexp.MustCompile(`\$(ACC|VAL|MOD|LASTLOCKOF|LOCKOF|POSOF|LOCK|POS|GAUGE|POOL|NEXTPOOL|LASTPOOL)\(([A-Za-z0-9_,\-]*)\)`)

// resolve substitutes the placeholders of a proto-JSON message against the state visible in ctx.
func (c *chain) resolve(ctx sdk.Context, raw string) string {
	a := c.App
	pick := func(r string, n uint64) string {
		v, _ := strconv.ParseUint(r, 10, 64)
		if n == 0 {
			return "0"
		}
		return strconv.FormatUint(1+v%n, 10)
	}
	return phRe.ReplaceAllStringFunc(raw, func(m string) string {
		sm := phRe.FindStringSubmatch(m)
		kind, arg := sm[1], sm[2]
		switch kind {
		case "ACC":
			i, _ := strconv.Atoi(arg)
			return c.accAddr(i).String()
		case "VAL":
			i, _ := strconv.Atoi(arg)
			vals, err := a.StakingKeeper.GetAllValidators(ctx)
			if err != nil || len(vals) == 0 {
				return "none"
			}
			ops := []string{}
			for _, v := range vals {
				ops = append(ops, v.OperatorAddress)
			}
			sort.Strings(ops)
			return ops[i%len(ops)]
		case "MOD":
			return authtypes.NewModuleAddress(arg).String()
		case "LOCKOF":
			p := strings.Split(arg, ",")
			i, _ := strconv.Atoi(p[0])
			r, _ := strconv.Atoi(p[1])
			locks := a.LockupKeeper.GetAccountPeriodLocks(ctx, c.accAddr(i))
			if len(locks) == 0 {
				return "0"
			}
			ids := []uint64{}
			for _, l := range locks {
				ids = append(ids, l.ID)
			}
			sort.Slice(ids, func(x, y int) bool { return ids[x] < ids[y] })
			return strconv.FormatUint(ids[r%len(ids)], 10)
		case "LASTLOCKOF": // the newest lock of account i
			i, _ := strconv.Atoi(arg)
			var best uint64
			for _, l := range a.LockupKeeper.GetAccountPeriodLocks(ctx, c.accAddr(i)) {
				if l.ID > best {
					best = l.ID
				}
			}
			return strconv.FormatUint(best, 10)
		case "POSOF":
			p := strings.Split(arg, ",")
			i, _ := strconv.Atoi(p[0])
			r, _ := strconv.Atoi(p[1])
			ps, err := a.ConcentratedLiquidityKeeper.GetUserPositions(ctx, c.accAddr(i), 0)
			if err != nil || len(ps) == 0 {
				return "0"
			}
			ids := []uint64{}
			for _, q := range ps {
				ids = append(ids, q.PositionId)
			}
			sort.Slice(ids, func(x, y int) bool { return ids[x] < ids[y] })
			return strconv.FormatUint(ids[r%len(ids)], 10)
		case "LOCK":
			return pick(arg, a.LockupKeeper.GetLastLockID(ctx))
		case "POS":
			return pick(arg, a.ConcentratedLiquidityKeeper.GetNextPositionId(ctx)-1)
		case "GAUGE":
			return pick(arg, a.IncentivesKeeper.GetLastGaugeID(ctx))
		case "POOL":
			return pick(arg, a.PoolManagerKeeper.GetNextPoolId(ctx)-1)
		case "NEXTPOOL": // the id the next created pool will get (+ offset)
			off, _ := strconv.ParseUint(arg, 10, 64)
			return strconv.FormatUint(a.PoolManagerKeeper.GetNextPoolId(ctx)+off, 10)
		case "LASTPOOL": // the most recently created pool (- offset)
			off, _ := strconv.ParseUint(arg, 10, 64)
			return strconv.FormatUint(a.PoolManagerKeeper.GetNextPoolId(ctx)-1-off, 10)
		}
		return m
	})
}

func (c *chain) buildTx(ctx sdk.Context, txCfg client.TxConfig, s txSpec) ([]byte, []string, error) {
	a := c.App
	priv := accKey(s.Acc)
	addr := c.accAddr(s.Acc)
	msgs := []sdk.Msg{}
	kinds := []string{}
	for _, raw := range s.Msgs {
		js := c.resolve(ctx, string(raw))
		var m sdk.Msg
		if err := a.AppCodec().UnmarshalInterfaceJSON([]byte(js), &m); err != nil {
			return nil, nil, fmt.Errorf("decode %s: %v", js, err)
		}
		msgs = append(msgs, m)
		kinds = append(kinds, sdk.MsgTypeURL(m))
	}
	acc := a.AccountKeeper.GetAccount(ctx, addr)
	if acc == nil {
		return nil, kinds, fmt.Errorf("account %d does not exist", s.Acc)
	}
	signMode, err := authsign.APISignModeToInternal(txCfg.SignModeHandler().DefaultMode())
	if err != nil {
		return nil, kinds, err
	}
	tb := txCfg.NewTxBuilder()
	if err := tb.SetMsgs(msgs...); err != nil {
		return nil, kinds, err
	}
	sig := signing.SignatureV2{PubKey: priv.PubKey(), Data: &signing.SingleSignatureData{SignMode: signMode}, Sequence: acc.GetSequence()}
	if err := tb.SetSignatures(sig); err != nil {
		return nil, kinds, err
	}
	amt, ok := sdkmath.NewIntFromString(s.FeeAmt)
	if !ok {
		return nil, kinds, fmt.Errorf("bad fee %q", s.FeeAmt)
	}
	tb.SetFeeAmount(sdk.NewCoins(sdk.NewCoin(s.FeeDenom, amt)))
	tb.SetGasLimit(s.Gas)
	sd := authsign.SignerData{Address: addr.String(), ChainID: chainID, AccountNumber: acc.GetAccountNumber(), Sequence: acc.GetSequence(), PubKey: priv.PubKey()}
	sb, err := authsign.GetSignBytesAdapter(ctx, txCfg.SignModeHandler(), signMode, sd, tb.GetTx())
	if err != nil {
		return nil, kinds, err
	}
	var pk cryptotypes.PrivKey = priv
	sg, err := pk.Sign(sb)
	if err != nil {
		return nil, kinds, err
	}
	sig.Data.(*signing.SingleSignatureData).Signature = sg
	if err := tb.SetSignatures(sig); err != nil {
		return nil, kinds, err
	}
	bz, err := txCfg.TxEncoder()(tb.GetTx())
	return bz, kinds, err
}

func (c *chain) storeHashes() map[string]string {
	out := map[string]string{}
	cms := c.App.CommitMultiStore()
	for name, key := range c.App.GetKVStoreKey() {
		st := cms.GetCommitKVStore(key)
		if st == nil {
			continue
		}
		out[name] = hex.EncodeToString(st.LastCommitID().Hash)
	}
	return out
}

// runBlock: the block's transactions are built against the state committed so far, then
// FinalizeBlock (pre-blocker, begin blocker, txs, end blocker) and Commit.
func (c *chain) runBlock(b blockSpec) blockObs {
	a := c.App
	c.now = c.now.Add(time.Duration(b.Dt) * time.Second)
	txCfg := osmoapp.GetEncodingConfig().TxConfig
	qctx := c.Ctx.WithBlockTime(c.now)
	bo := blockObs{Height: c.height, Time: c.now.Unix(), Txs: []txObs{}}
	txs := [][]byte{}
	slot := []int{}
	for _, s := range b.Txs {
		bz, kinds, err := c.buildTx(qctx, txCfg, s)
		to := txObs{Kinds: kinds, Events: []string{}}
		if err != nil {
			to.Bad = err.Error()
			slot = append(slot, -1)
		} else {
			slot = append(slot, len(txs))
			txs = append(txs, bz)
		}
		bo.Txs = append(bo.Txs, to)
	}
	// votes of the bonded validators (distribution / slashing begin blockers use them)
	votes := []abci.VoteInfo{}
	var proposer []byte
	vals, err := a.StakingKeeper.GetBondedValidatorsByPower(qctx)
	if err != nil {
		panic(err)
	}
	for _, v := range vals {
		ca, err := v.GetConsAddr()
		if err != nil {
			panic(err)
		}
		if proposer == nil {
			proposer = ca
		}
		votes = append(votes, abci.VoteInfo{Validator: abci.Validator{Address: ca, Power: v.ConsensusPower(sdk.DefaultPowerReduction)}, BlockIdFlag: cmtproto.BlockIDFlagCommit})
	}
	res, err := a.FinalizeBlock(&abci.RequestFinalizeBlock{
		Height: c.height, Time: c.now, Txs: txs, ProposerAddress: proposer,
		DecidedLastCommit: abci.CommitInfo{Votes: votes},
	})
	if err != nil {
		panic(fmt.Sprintf("FinalizeBlock height %d: %v", c.height, err))
	}
	if _, err := a.Commit(); err != nil {
		panic(err)
	}
	bo.Events = evStrings(res.Events)
	bo.ValUpd = len(res.ValidatorUpdates)
	for i := range bo.Txs {
		if slot[i] < 0 {
			continue
		}
		r := res.TxResults[slot[i]]
		d := sha256.Sum256(r.Data)
		bo.Txs[i].Code, bo.Txs[i].Codespace = r.Code, r.Codespace
		bo.Txs[i].GasUsed, bo.Txs[i].GasWanted = r.GasUsed, r.GasWanted
		bo.Txs[i].Data = hex.EncodeToString(d[:8])
		bo.Txs[i].Log = r.Log
		bo.Txs[i].Events = evStrings(r.Events)
	}
	bo.AppHash = hex.EncodeToString(a.LastCommitID().Hash)
	bo.Stores = c.storeHashes()
	c.height++
	c.Ctx = a.BaseApp.NewUncachedContext(false, cmtproto.Header{Height: c.height, ChainID: chainID, Time: c.now})
	return bo
}

// A dependency keeps a process-global handle on the store of the most recently constructed application
// (ibc-go 08-wasm: ibcwasm.SetupWasmStoreService), so only the newest application of a process can export its
// genesis. The driver therefore finishes everything on the original chain first (recording the exported genesis
// at every export point) and only then builds the re-imported chains, one after the other.
type pending struct {
	eo     *exportObs
	orig   map[string]json.RawMessage
	probes map[string]string
	kv     map[string]map[string]string
	state  []byte
	cp     *cmtproto.ConsensusParams
	height int64
	now    time.Time
}

func run(t *testing.T, tc tcase) obs {
	if tc.Variant%2 == 1 {
		runtime.GOMAXPROCS(1)
		debug.SetGCPercent(10)
	} else {
		runtime.GOMAXPROCS(runtime.NumCPU())
		debug.SetGCPercent(400)
	}
	o := obs{Name: tc.Name, Variant: tc.Variant, Blocks: []blockObs{}}
	c := newChain(t)
	c.setup(tc)
	o.SetupH = c.exportDigestAll()
	exportAt := map[int]bool{}
	for _, k := range tc.ExportAt {
		exportAt[k] = true
	}
	restartAt := map[int]bool{}
	for _, k := range tc.RestartAt {
		restartAt[k] = true
	}
	pend := []*pending{}
	for i, b := range tc.Blocks {
		o.Blocks = append(o.Blocks, c.runBlock(b))
		if tc.Queries {
			c.runQueries()
		}
		if restartAt[i] && i > 0 {
			c.restart()
			o.Restarts = append(o.Restarts, i)
		}
		if i == 0 {
			// after a possible restart: lateSetup writes to the uncommitted working state of the running application
			c.lateSetup(tc)
		}
		if exportAt[i] {
			p := c.export(i)
			pend = append(pend, p)
			o.Exports = append(o.Exports, p.eo)
		}
	}
	fin := c.exportModules()
	o.Final = digestOf(fin)
	finKV := c.dumpStores()
	finProbes := c.probes()
	for _, p := range pend {
		if p.state != nil {
			p.reimport(t, tc, fin, finKV, finProbes)
		}
	}
	return o
}

func tryInit(b *osmoapp.OsmosisApp, req *abci.RequestInitChain) (msg string) {
	defer func() {
		if r := recover(); r != nil {
			msg = fmt.Sprintf("panic: %v", r)
		}
	}()
	if _, err := b.InitChain(req); err != nil {
		return "error: " + err.Error()
	}
	return ""
}

// invariants: the crisis module's registered invariants (bank, staking, distribution, gov, gamm, lockup, ...) on a throw-away branch
func invariants(c *chain) (msg string) {
	defer func() {
		if r := recover(); r != nil {
			msg = fmt.Sprintf("%v", r)
		}
	}()
	cctx, _ := c.Ctx.CacheContext()
	c.App.CrisisKeeper.AssertInvariants(cctx)
	return ""
}

// export: genesis export of the whole application after block i, plus the per-module export it is compared with.
func (c *chain) export(i int) *pending {
	eo := &exportObs{At: i, Height: c.height, Sizes: map[string]int{}, Diff: map[string][]string{}, Tail: []blockObs{}}
	p := &pending{eo: eo, height: c.height, now: c.now}
	defer func() {
		if r := recover(); r != nil {
			eo.Err = fmt.Sprintf("export panicked: %v", r)
			p.state = nil
		}
	}()
	eo.InvOrig = invariants(c)
	eo.ProbeOrig = c.probes()
	p.probes = eo.ProbeOrig
	p.kv = c.dumpStores()
	p.orig = c.exportModules()
	eo.Orig = digestOf(p.orig)
	for k, v := range p.orig {
		eo.Sizes[k] = len(v)
	}
	exp, err := c.App.ExportAppStateAndValidators(false, nil, nil)
	if err != nil {
		eo.Err = "ExportAppStateAndValidators: " + err.Error()
		return p
	}
	if exp.Height != c.height {
		eo.Err = fmt.Sprintf("exported height %d, chain is at %d", exp.Height, c.height)
		return p
	}
	cp := exp.ConsensusParams
	p.cp = &cp
	p.state = exp.AppState
	return p
}

// reimport: a fresh application initialised from the exported genesis -> per-module export compared byte for
// byte with the original's -> the remaining history replayed -> final per-module export compared.
func (p *pending) reimport(t *testing.T, tc tcase, fin map[string]json.RawMessage, finKV map[string]map[string]string, finProbes map[string]string) {
	eo := p.eo
	var cb *chain
	defer func() {
		if r := recover(); r != nil {
			h := int64(-1)
			if cb != nil {
				h = cb.height
			}
			eo.Err = fmt.Sprintf("re-imported chain panicked (height %d): %v", h, r)
		}
	}()
	req := &abci.RequestInitChain{
		Time: p.now, ChainId: chainID, ConsensusParams: p.cp, Validators: []abci.ValidatorUpdate{},
		AppStateBytes: p.state, InitialHeight: p.height,
	}
	// first with the node's default options (crisis asserts the registered invariants during InitGenesis) ...
	b := newAppOpts(t, false)
	eo.InitDef = tryInit(b, req)
	if eo.InitDef != "" {
		// ... then, if that failed, with --x-crisis-skip-assert-invariants, and the invariants are asserted here
		// once every module has been initialised
		b = newAppOpts(t, true)
		if e := tryInit(b, req); e != "" {
			eo.Err = "InitChain from exported state: " + e
			return
		}
	}
	cb = attach(t, b, p.height, p.now)
	eo.InvRe = invariants(cb)
	re := cb.exportModules()
	eo.Reimp = digestOf(re)
	eo.TimeNs = p.now.UnixNano()
	eo.RawOrig, eo.RawRe = map[string]json.RawMessage{}, map[string]json.RawMessage{}
	for _, m := range []string{"epochs", "lockup"} {
		eo.RawOrig[m], eo.RawRe[m] = p.orig[m], re[m]
	}
	for k, v := range p.orig {
		if !bytes.Equal(v, re[k]) {
			eo.Diff[k] = allDiffs(v, re[k])
		}
	}
	for k := range re {
		if _, ok := p.orig[k]; !ok {
			eo.Diff[k] = []string{": module only in the re-imported export"}
		}
	}
	// raw stores: report every difference, then neutralise the known ones so that the replay below is exact
	eo.ProbeRe = cb.probes()
	eo.KV = diffStores(p.kv, cb.dumpStores())
	known := tc.KVKnown
	if !cb.accumulationMatchesLocks(eo.ProbeRe) {
		// the import did not rebuild the accumulation store to the sums of the imported locks: leave it as imported
		// (instead of overwriting it with the original's entries), so that the consequences - superfluid's epoch refresh
		// of the intermediary delegations - show in the replay
		known = nil
		for _, k := range tc.KVKnown {
			if !(k[0] == "lockup" && k[2] == "20") {
				known = append(known, k)
			}
		}
	}
	eo.KVLeft = cb.patchKnown(eo.KV, p.kv, known)
	for _, blk := range tc.Blocks[eo.At+1:] {
		eo.Tail = append(eo.Tail, cb.runBlock(blk))
	}
	eo.ProbeFinO, eo.ProbeFinRe = finProbes, cb.probes()
	eo.FinalKV = diffStores(finKV, cb.dumpStores())
	markKnown(eo.FinalKV, tc.KVKnown)
	refin := cb.exportModules()
	eo.FinalRe = digestOf(refin)
	eo.FinalDf = map[string][]string{}
	for k, v := range fin {
		if !bytes.Equal(v, refin[k]) {
			eo.FinalDf[k] = allDiffs(v, refin[k])
		}
	}
}

// dumpStores: every key/value pair of every IAVL store visible in the chain's context
func (c *chain) dumpStores() map[string]map[string]string {
	out := map[string]map[string]string{}
	for name, key := range c.App.GetKVStoreKey() {
		m := map[string]string{}
		it := c.Ctx.KVStore(key).Iterator(nil, nil)
		for ; it.Valid(); it.Next() {
			m[string(it.Key())] = string(it.Value())
		}
		it.Close()
		out[name] = m
	}
	return out
}

func printable(b string) string {
	ok := true
	for _, ch := range []byte(b) {
		if ch < 32 || ch > 126 {
			ok = false
			break
		}
	}
	if ok {
		return b
	}
	h := hex.EncodeToString([]byte(b))
	if len(h) > 120 {
		h = h[:120] + "..."
	}
	return "0x" + h
}

type kvDiff struct {
	Store string `json:"store"`
	Kind  string `json:"kind"` // only_original | only_reimported | differs[:f<k>,...]
	Key   string `json:"key"`  // hex
	Text  string `json:"text"`
	Known bool   `json:"known"`
}

// diffStores: raw key/value differences (at most 400 per store)
func diffStores(a, b map[string]map[string]string) []kvDiff {
	out := []kvDiff{}
	names := []string{}
	seen := map[string]bool{}
	for n := range a {
		seen[n] = true
	}
	for n := range b {
		seen[n] = true
	}
	for n := range seen {
		names = append(names, n)
	}
	sort.Strings(names)
	for _, n := range names {
		keys := map[string]bool{}
		for k := range a[n] {
			keys[k] = true
		}
		for k := range b[n] {
			keys[k] = true
		}
		ks := []string{}
		for k := range keys {
			ks = append(ks, k)
		}
		sort.Strings(ks)
		cnt := 0
		for _, k := range ks {
			va, oka := a[n][k]
			vb, okb := b[n][k]
			if oka && okb && va == vb {
				continue
			}
			cnt++
			if cnt > 400 {
				break
			}
			d := kvDiff{Store: n, Key: hex.EncodeToString([]byte(k))}
			switch {
			case !okb:
				d.Kind, d.Text = "only_original", fmt.Sprintf("%s = %s", printable(k), printable(va))
			case !oka:
				d.Kind, d.Text = "only_reimported", fmt.Sprintf("%s = %s", printable(k), printable(vb))
			default:
				d.Kind, d.Text = "differs"+protoFieldDiff(va, vb), fmt.Sprintf("%s = %s vs %s", printable(k), printable(va), printable(vb))
			}
			out = append(out, d)
		}
	}
	return out
}

func markKnown(ds []kvDiff, known [][]string) {
	for i := range ds {
		for _, k := range known {
			if k[0] == ds[i].Store && regexp.MustCompile("^(?:"+k[1]+")$").MatchString(ds[i].Kind) && regexp.MustCompile("^(?:"+k[2]+")").MatchString(ds[i].Key) {
				ds[i].Known = true
				break
			}
		}
	}
}

// patchKnown marks the differences that match a known pattern and overwrites the re-imported chain's entries
// with the original's; returns the number of differences that remain.
func (c *chain) patchKnown(ds []kvDiff, orig map[string]map[string]string, known [][]string) int {
	type pat struct {
		store     string
		kind, key *regexp.Regexp
	}
	pats := []pat{}
	for _, k := range known {
		pats = append(pats, pat{k[0], regexp.MustCompile("^(?:" + k[1] + ")$"), regexp.MustCompile("^(?:" + k[2] + ")")})
	}
	keys := c.App.GetKVStoreKey()
	left := 0
	for i := range ds {
		d := &ds[i]
		for _, p := range pats {
			if p.store == d.Store && p.kind.MatchString(d.Kind) && p.key.MatchString(d.Key) {
				d.Known = true
				break
			}
		}
		if !d.Known {
			left++
			continue
		}
		kb, _ := hex.DecodeString(d.Key)
		st := c.Ctx.KVStore(keys[d.Store])
		if v, ok := orig[d.Store][string(kb)]; ok {
			st.Set(kb, []byte(v))
		} else {
			st.Delete(kb)
		}
	}
	return left
}

// protoFields: best-effort split of a protobuf-encoded value into its top-level fields (field number -> raw
// encodings in order); ok=false if the bytes are not a well-formed protobuf message
func protoFields(b string) (map[int][]string, bool) {
	out := map[int][]string{}
	i := 0
	varint := func() (uint64, bool) {
		var v uint64
		for sh := uint(0); sh < 64; sh += 7 {
			if i >= len(b) {
				return 0, false
			}
			c := b[i]
			i++
			v |= uint64(c&0x7f) << sh
			if c < 0x80 {
				return v, true
			}
		}
		return 0, false
	}
	for i < len(b) {
		tag, ok := varint()
		if !ok || tag>>3 == 0 {
			return nil, false
		}
		f := int(tag >> 3)
		st := i
		switch tag & 7 {
		case 0:
			if _, ok := varint(); !ok {
				return nil, false
			}
		case 1:
			i += 8
		case 5:
			i += 4
		case 2:
			n, ok := varint()
			if !ok || uint64(i)+n > uint64(len(b)) {
				return nil, false
			}
			i += int(n)
		default:
			return nil, false
		}
		if i > len(b) {
			return nil, false
		}
		out[f] = append(out[f], b[st:i])
	}
	return out, len(b) > 0
}

// protoFieldDiff: " f<k>,f<m>" = the top-level protobuf fields in which two values differ ("" if either is not protobuf)
func protoFieldDiff(a, b string) string {
	fa, oka := protoFields(a)
	fb, okb := protoFields(b)
	if !oka || !okb {
		return ""
	}
	fs := map[int]bool{}
	for f := range fa {
		fs[f] = true
	}
	for f := range fb {
		fs[f] = true
	}
	d := []int{}
	for f := range fs {
		if strings.Join(fa[f], "\x00") != strings.Join(fb[f], "\x00") {
			d = append(d, f)
		}
	}
	sort.Ints(d)
	out := ""
	for i, f := range d {
		if i > 0 {
			out += ","
		}
		out += fmt.Sprintf("f%d", f)
	}
	if out == "" {
		return ""
	}
	return ":" + out
}

// runQueries: read-only traffic of the kind an RPC node serves between blocks - keeper getters on a query context
// (they go through app.PoolManagerKeeper etc.) and gRPC queries through baseapp (they go through the modules' own keeper
// copies). Nothing here may influence the next block.
func (c *chain) runQueries() {
	defer func() { _ = recover() }()
	a := c.App
	qctx, err := a.CreateQueryContext(0, false)
	if err != nil {
		return
	}
	next := a.PoolManagerKeeper.GetNextPoolId(qctx)
	for id := uint64(1); id <= next+1; id++ {
		func() {
			defer func() { _ = recover() }()
			_, _ = a.PoolManagerKeeper.GetPoolModule(qctx, id)
			_, _ = a.PoolManagerKeeper.GetPoolType(qctx, id)
			if p, err := a.PoolManagerKeeper.GetPool(qctx, id); err == nil {
				ds, err := a.PoolManagerKeeper.RouteGetPoolDenoms(qctx, id)
				if err == nil && len(ds) >= 2 {
					_, _ = a.PoolManagerKeeper.RouteCalculateSpotPrice(qctx, id, ds[0], ds[1])
					_, _ = a.TwapKeeper.GetArithmeticTwapToNow(qctx, id, ds[0], ds[1], qctx.BlockTime().Add(-time.Minute))
				}
				_ = p
			}
		}()
	}
	_ = a.ProtoRevKeeper.GetAllProfits(qctx)
	for _, path := range []string{"/osmosis.poolmanager.v1beta1.Query/NumPools", "/osmosis.poolmanager.v1beta1.Query/AllPools",
		"/osmosis.poolmanager.v1beta1.Query/AllTakerFeeShareAgreements", "/osmosis.incentives.Query/Gauges", "/osmosis.epochs.v1beta1.Query/EpochInfos"} {
		func() {
			defer func() { _ = recover() }()
			_, _ = a.Query(context.Background(), &abci.RequestQuery{Path: path})
		}()
	}
}

// accumulationMatchesLocks: every lockup_accumulation probe equals the sum over the chain's own (synthetic) locks of that
// denom with at least that duration
func (c *chain) accumulationMatchesLocks(pr map[string]string) bool {
	ctx, _ := c.Ctx.CacheContext()
	a := c.App
	type ent struct {
		dur time.Duration
		amt sdkmath.Int
	}
	by := map[string][]ent{}
	locks, err := a.LockupKeeper.GetPeriodLocks(ctx)
	if err != nil {
		return false
	}
	byID := map[uint64]sdk.Coins{}
	for _, l := range locks {
		byID[l.ID] = l.Coins
		for _, cn := range l.Coins {
			by[cn.Denom] = append(by[cn.Denom], ent{l.Duration, cn.Amount})
		}
	}
	for _, sl := range a.LockupKeeper.GetAllSyntheticLockups(ctx) {
		if cs := byID[sl.UnderlyingLockId]; len(cs) == 1 {
			by[sl.SynthDenom] = append(by[sl.SynthDenom], ent{sl.Duration, cs[0].Amount})
		}
	}
	for k, v := range pr {
		if !strings.HasPrefix(k, "lockup_accumulation|") {
			continue
		}
		parts := strings.Split(k, "|")
		d, _ := strconv.ParseInt(parts[2], 10, 64)
		sum := sdkmath.ZeroInt()
		for _, e := range by[parts[1]] {
			if int64(e.dur) >= d {
				sum = sum.Add(e.amt)
			}
		}
		if sum.String() != v {
			return false
		}
	}
	return true
}

func sameProbes(a, b map[string]string, prefix string) bool {
	for k, v := range a {
		if strings.HasPrefix(k, prefix) && b[k] != v {
			return false
		}
	}
	for k, v := range b {
		if strings.HasPrefix(k, prefix) && a[k] != v {
			return false
		}
	}
	return true
}

// probes: derived values that no exported genesis field and no raw-store comparison (the sum-tree layout legitimately
// differs) shows, read through the keepers' query functions:
//   lockup_accumulation|denom|duration      GetPeriodLocksAccumulation for every locked / synthetic denom and every duration
//                                            in use, one nanosecond below and above it, and 0
//   superfluid_total_synthetic_locked|denom GetTotalSyntheticAssetsLocked for every synthetic denom
//   intermediary_delegation|denom|validator staked amount of every superfluid intermediary account
func (c *chain) probes() (out map[string]string) {
	out = map[string]string{}
	defer func() {
		if r := recover(); r != nil {
			out["panic"] = fmt.Sprintf("%v", r)
		}
	}()
	a := c.App
	ctx, _ := c.Ctx.CacheContext()
	denoms := map[string]bool{}
	durs := map[time.Duration]bool{0: true}
	locks, err := a.LockupKeeper.GetPeriodLocks(ctx)
	if err != nil {
		panic(err)
	}
	for _, l := range locks {
		durs[l.Duration] = true
		for _, cn := range l.Coins {
			denoms[cn.Denom] = true
		}
	}
	synth := map[string]bool{}
	for _, sl := range a.LockupKeeper.GetAllSyntheticLockups(ctx) {
		denoms[sl.SynthDenom] = true
		synth[sl.SynthDenom] = true
		durs[sl.Duration] = true
	}
	for _, d := range a.IncentivesKeeper.GetLockableDurations(ctx) {
		durs[d] = true
	}
	for d := range denoms {
		for du := range durs {
			for _, x := range []time.Duration{du - 1, du, du + 1} {
				if x < 0 {
					continue
				}
				v := a.LockupKeeper.GetPeriodLocksAccumulation(ctx, lockuptypes.QueryCondition{LockQueryType: lockuptypes.ByDuration, Denom: d, Duration: x})
				out[fmt.Sprintf("lockup_accumulation|%s|%d", d, int64(x))] = v.String()
			}
		}
	}
	for d := range synth {
		v, err := a.SuperfluidKeeper.GetTotalSyntheticAssetsLocked(ctx, d)
		if err != nil {
			out["superfluid_total_synthetic_locked|"+d] = "error: " + err.Error()
		} else {
			out["superfluid_total_synthetic_locked|"+d] = v.String()
		}
	}
	for _, ia := range a.SuperfluidKeeper.GetAllIntermediaryAccounts(ctx) {
		key := "intermediary_delegation|" + ia.Denom + "|" + ia.ValAddr
		va, err := sdk.ValAddressFromBech32(ia.ValAddr)
		if err != nil {
			out[key] = "bad validator"
			continue
		}
		del, err := a.StakingKeeper.GetDelegation(ctx, ia.GetAccAddress(), va)
		if err != nil {
			out[key] = "none"
			continue
		}
		out[key] = del.Shares.String()
	}
	return out
}
