// Package c20drv drives the real message servers of x/concentrated-liquidity, x/lockup, x/superfluid and
// x/tokenfactory (full app) for property C20 "only the owner or admin can move or alter what they own".
//
// One fresh chain per case. A fixed world is set up (named accounts, two validators, a superfluid-enabled balancer
// pool, a plain balancer pool, a concentrated pool, a superfluid-enabled concentrated pool); then the case's list of
// operations is run. Every operation is executed the way baseapp executes a message: on a cache context that is
// written back only when the handler returned nil (apph.Atomic). Operations marked "c" (commit) make up the
// history; all others are probes: they run on a branch of the current state that is thrown away afterwards, so that
// the whole message x sender matrix is evaluated on the very same state. For every operation the driver prints:
// ok / error class, the ValidateBasic verdict, the digest of the full state before and after (bank balances of
// every account, every position, lock, synthetic lock, intermediary connection, factory denom authority and bank
// metadata - taken from the modules' own genesis exports), and for accepted operations the projected snapshot of the
// state after. Addresses never leave the driver: they are replaced by their index in the account table.
package c20drv

import (
	"crypto/sha256"
	"encoding/hex"
	"encoding/json"
	"fmt"
	"os"
	"path/filepath"
	"sort"
	"strings"
	"testing"
	"time"

	wasmkeeper "github.com/CosmWasm/wasmd/x/wasm/keeper"
	sdk "github.com/cosmos/cosmos-sdk/types"
	banktypes "github.com/cosmos/cosmos-sdk/x/bank/types"
	distrtypes "github.com/cosmos/cosmos-sdk/x/distribution/types"
	govtypes "github.com/cosmos/cosmos-sdk/x/gov/types"
	stakingtypes "github.com/cosmos/cosmos-sdk/x/staking/types"

	"github.com/osmosis-labs/osmosis/osmomath"
	cl "github.com/osmosis-labs/osmosis/v31/x/concentrated-liquidity"
	cltypes "github.com/osmosis-labs/osmosis/v31/x/concentrated-liquidity/types"
	gammtypes "github.com/osmosis-labs/osmosis/v31/x/gamm/types"
	"github.com/osmosis-labs/osmosis/v31/x/lockup"
	lockupkeeper "github.com/osmosis-labs/osmosis/v31/x/lockup/keeper"
	lockuptypes "github.com/osmosis-labs/osmosis/v31/x/lockup/types"
	poolmanagertypes "github.com/osmosis-labs/osmosis/v31/x/poolmanager/types"
	superfluidkeeper "github.com/osmosis-labs/osmosis/v31/x/superfluid/keeper"
	superfluidtypes "github.com/osmosis-labs/osmosis/v31/x/superfluid/types"
	tfkeeper "github.com/osmosis-labs/osmosis/v31/x/tokenfactory/keeper"
	tftypes "github.com/osmosis-labs/osmosis/v31/x/tokenfactory/types"

	"verifharness/apph"
)

// ---------------------------------------------------------------------------------------------------------------
// case / observation
// ---------------------------------------------------------------------------------------------------------------

type op struct {
	K    string   `json:"k"`             // kind
	S    int      `json:"s"`             // sender: index in the account table
	C    bool     `json:"c,omitempty"`   // commit (history) or probe
	ID   int64    `json:"id,omitempty"`  // position id / lock id / pool id
	IDs  []uint64 `json:"ids,omitempty"` // position ids
	To   int      `json:"to,omitempty"`  // account index (-1: empty string)
	From int      `json:"from,omitempty"`
	Amt  string   `json:"amt,omitempty"`
	Amt1 string   `json:"amt1,omitempty"`
	Den  string   `json:"den,omitempty"` // denom, "@k" stands for the bech32 address of account k
	Sub  string   `json:"sub,omitempty"`
	Dur  int64    `json:"dur,omitempty"` // seconds
	Val  int      `json:"val,omitempty"` // validator index (-1: a well-formed address of no validator)
	Lo   int64    `json:"lo,omitempty"`
	Hi   int64    `json:"hi,omitempty"`
	Bad  bool     `json:"bad,omitempty"` // SetDenomMetadata: metadata that fails Validate(); h_swap: swap token1 for token0
}

type setup struct {
	Fee     string `json:"fee"`     // tokenfactory DenomCreationFee in uosmo ("" / "0": none)
	Allowed []int  `json:"allowed"` // lockup ForceUnlockAllowedAddresses (account indices)
	Unpool  []int  `json:"unpool"`  // superfluid UnpoolAllowedPools: 1 = the superfluid balancer pool, 2 = the plain one
	Wasm    bool   `json:"wasm"`    // upload and instantiate x/tokenfactory/keeper/testdata/no100.wasm (a before-send hook contract)
}

type cs struct {
	Setup setup `json:"setup"`
	Ops   []op  `json:"ops"`
}

type snap struct {
	Pos      [][]string `json:"pos"`   // id, owner, pool, liquidity (raw 10^-18), active lock id, full range 0/1
	NextPos  uint64     `json:"npos"`  // id the next created position gets
	Locks    [][]string `json:"locks"` // id, owner, receiver (-1: empty), denom, amount, duration ns, unlocking, synth (0 none, 1 bonded, 2 unbonding), connection 0/1, validator index of the connection (-1)
	LastLock uint64     `json:"llock"`
	Denoms   [][]string `json:"denoms"` // denom, admin (-1: empty), hook account (-1: none), metadata description
	Bal      [][]string `json:"bal"`    // account, denom, amount  (accounts of the table only; non-zero)
}

type static struct {
	Names     []string `json:"names"`
	Gov       int      `json:"gov"`
	Protected []int    `json:"protected"` // tokenfactory IsModuleAcc
	Allowed   []int    `json:"allowed"`
	Unbonding int64    `json:"unbonding"` // ns
	SfAssets  []string `json:"sfassets"`
	NVals     int      `json:"nvals"`
	Fee       string   `json:"fee"`
	FeeDenom  string   `json:"feedenom"`
	Unpool    []uint64 `json:"unpool"`
	Pools     []uint64 `json:"pools"` // sf balancer, plain balancer, cl, sf cl
	Contracts []int    `json:"contracts"`
	Supply    []string `json:"supply"` // denoms with supply
	Meta      []string `json:"meta"`   // non-factory denoms with bank metadata
}

type step struct {
	R     int    `json:"r"`  // 0 accepted, 1 rejected, 2 panic
	EC    int    `json:"ec"` // error class: 0 none, 1 authorisation, 2 other
	VB    int    `json:"vb"` // ValidateBasic: 0 ok, 1 fails, 2 message has none
	Err   string `json:"err,omitempty"`
	D0    string `json:"d0"`
	D1    string `json:"d1"`
	Post  *snap  `json:"post,omitempty"`
	NewDn string `json:"newdn,omitempty"` // CreateDenom: the denom in the response (symbolic)
}

type obs struct {
	Err    string `json:"err,omitempty"`
	Static static `json:"static"`
	Init   snap   `json:"init"`
	Steps  []step `json:"steps"`
}

// ---------------------------------------------------------------------------------------------------------------
// world
// ---------------------------------------------------------------------------------------------------------------

type world struct {
	d0       string // digest of the committed state ("" = stale)
	h        *apph.Helper
	ctx      sdk.Context
	names    []string
	addrs    []sdk.AccAddress
	idx      map[string]int
	vals     []sdk.ValAddress
	pools    []uint64
	bond     string
	contract int
}

const (
	nUsers = 6 // A B C D F Z (Z is never funded)
)

func userAddr(i int) sdk.AccAddress {
	return sdk.AccAddress([]byte(fmt.Sprintf("c20-user-account-%03d", i)))
}

func (w *world) add(name string, a sdk.AccAddress) {
	if _, ok := w.idx[a.String()]; ok {
		return
	}
	w.idx[a.String()] = len(w.addrs)
	w.names = append(w.names, name)
	w.addrs = append(w.addrs, a)
}

func (w *world) addrStr(i int) string {
	if i < 0 {
		return ""
	}
	return w.addrs[i].String()
}

func (w *world) ix(a string) int {
	if a == "" {
		return -1
	}
	if i, ok := w.idx[a]; ok {
		return i
	}
	panic("address outside the account table: " + a)
}

func (w *world) denomIn(d string) string {
	for strings.Contains(d, "@") {
		i := strings.Index(d, "@")
		j := i + 1
		for j < len(d) && d[j] >= '0' && d[j] <= '9' {
			j++
		}
		var k int
		fmt.Sscanf(d[i+1:j], "%d", &k)
		d = d[:i] + w.addrs[k].String() + d[j:]
	}
	return d
}

func (w *world) denomOut(d string) string {
	if !strings.Contains(d, "osmo1") {
		return d
	}
	for a, i := range w.idx {
		if strings.Contains(d, a) {
			d = strings.ReplaceAll(d, a, fmt.Sprintf("@%d", i))
		}
	}
	return d
}

func must(err error) {
	if err != nil {
		panic(err)
	}
}

func mkInt(s string) osmomath.Int {
	if s == "" {
		return osmomath.ZeroInt()
	}
	v, ok := osmomath.NewIntFromString(s)
	if !ok {
		panic("bad integer " + s)
	}
	return v
}

func newWorld(t *testing.T, su setup) *world {
	h := apph.New(t)
	w := &world{h: h, idx: map[string]int{}}
	app := h.App
	ctx := h.Ctx
	bond, err := app.StakingKeeper.BondDenom(ctx)
	must(err)
	w.bond = bond

	for i, n := range []string{"A", "B", "C", "D", "F", "Z"} {
		w.add(n, userAddr(i))
	}
	for _, m := range []string{govtypes.ModuleName, lockuptypes.ModuleName, tftypes.ModuleName, superfluidtypes.ModuleName,
		distrtypes.ModuleName, stakingtypes.BondedPoolName} {
		w.add("mod:"+m, app.AccountKeeper.GetModuleAddress(m))
	}

	// lockable durations must contain the unbonding time (superfluid gauges)
	sp, err := app.StakingKeeper.GetParams(ctx)
	must(err)
	unb := sp.UnbondingTime
	app.IncentivesKeeper.SetLockableDurations(ctx, []time.Duration{time.Hour, 3 * time.Hour, 7 * time.Hour, unb})

	w.vals = append(w.vals, h.SetupValidator(stakingtypes.Bonded), h.SetupValidator(stakingtypes.Bonded))

	funds := sdk.NewCoins(
		sdk.NewCoin(bond, osmomath.NewInt(1_000_000_000_000)), sdk.NewCoin("eth", osmomath.NewInt(1_000_000_000_000)),
		sdk.NewCoin("usdc", osmomath.NewInt(1_000_000_000_000)), sdk.NewCoin("token0", osmomath.NewInt(1_000_000_000)),
		sdk.NewCoin("token1", osmomath.NewInt(1_000_000_000)), sdk.NewCoin("plain", osmomath.NewInt(1_000_000_000)))
	if bond != "uosmo" {
		funds = funds.Add(sdk.NewCoin("uosmo", osmomath.NewInt(1_000_000_000_000)))
	}
	for i := 0; i < nUsers-1; i++ { // Z stays empty
		h.FundAcc(w.addrs[i], funds)
	}

	// balancer pools 1 (superfluid asset) and 2 (not)
	p1 := h.PrepareBalancerPoolWithCoins(sdk.NewCoin(bond, osmomath.NewInt(10_000_000_000)), sdk.NewCoin("token0", osmomath.NewInt(1_000_000_000)))
	p2 := h.PrepareBalancerPoolWithCoins(sdk.NewCoin(bond, osmomath.NewInt(10_000_000_000)), sdk.NewCoin("token1", osmomath.NewInt(1_000_000_000)))
	w.pools = append(w.pools, p1, p2)
	must(app.SuperfluidKeeper.AddNewSuperfluidAsset(ctx, superfluidtypes.SuperfluidAsset{
		Denom: gammtypes.GetPoolShareDenom(p1), AssetType: superfluidtypes.SuperfluidAssetTypeLPShare}))
	gp1, err := app.GAMMKeeper.GetPoolAndPoke(ctx, p1)
	must(err)
	w.add("gammpool", gp1.GetAddress())
	for i := 0; i < nUsers-1; i++ {
		for _, p := range []uint64{p1, p2} {
			_, _, err := app.GAMMKeeper.JoinPoolNoSwap(ctx, w.addrs[i], p, gammtypes.OneShare.MulRaw(5), sdk.Coins{})
			must(err)
		}
	}

	// concentrated pool (eth/usdc) and a superfluid-enabled one (bond denom / usdc)
	cp := h.PrepareCustomConcentratedPool(w.addrs[3], "eth", "usdc", 100, osmomath.MustNewDecFromStr("0.005"))
	w.pools = append(w.pools, cp.GetId())
	w.add("clpool", cp.GetAddress())
	w.add("clpool:fees", cp.GetSpreadRewardsAddress())
	w.add("clpool:incentives", cp.GetIncentivesAddress())
	sp2 := h.PrepareCustomConcentratedPool(w.addrs[3], bond, "usdc", 100, osmomath.ZeroDec())
	w.pools = append(w.pools, sp2.GetId())
	w.add("sfclpool", sp2.GetAddress())
	// the pool needs a full range position before it can be priced as a superfluid asset
	_, err = app.ConcentratedLiquidityKeeper.CreateFullRangePosition(ctx, sp2.GetId(), w.addrs[3],
		sdk.NewCoins(sdk.NewCoin(bond, osmomath.NewInt(1_000_000_000)), sdk.NewCoin("usdc", osmomath.NewInt(1_000_000_000))))
	must(err)
	must(app.SuperfluidKeeper.AddNewSuperfluidAsset(ctx, superfluidtypes.SuperfluidAsset{
		Denom: cltypes.GetConcentratedLockupDenomFromPoolId(sp2.GetId()), AssetType: superfluidtypes.SuperfluidAssetTypeConcentratedShare}))

	// intermediary accounts of (superfluid denom, validator): deterministic from the pair
	for _, d := range []string{gammtypes.GetPoolShareDenom(p1), cltypes.GetConcentratedLockupDenomFromPoolId(sp2.GetId())} {
		for vi, v := range w.vals {
			ia := superfluidtypes.NewSuperfluidIntermediaryAccount(d, v.String(), 0)
			w.add(fmt.Sprintf("intermediary:%s:%d", d, vi), ia.GetAccAddress())
		}
	}

	// a cosmwasm contract that answers the before-send sudo calls (account "contract"; a plain address when not uploaded)
	contract := sdk.AccAddress([]byte("c20-not-a-contract--"))
	w.contract = -1
	if su.Wasm {
		repo := os.Getenv("VERIF_REPO")
		if repo == "" {
			repo = "/repo"
		}
		code, err := os.ReadFile(filepath.Join(repo, "x/tokenfactory/keeper/testdata/no100.wasm"))
		must(err)
		ck := wasmkeeper.NewGovPermissionKeeper(app.WasmKeeper)
		codeID, _, err := ck.Create(ctx, w.addrs[3], code, nil)
		must(err)
		contract, _, err = ck.Instantiate(ctx, codeID, w.addrs[3], w.addrs[3], []byte("{}"), "", sdk.NewCoins())
		must(err)
		w.contract = len(w.addrs)
	}
	w.add("contract", contract)
	// the one module account the bank lets receive funds (app.allowedReceivingModAcc)
	w.add("mod:protorev", app.AccountKeeper.GetModuleAddress("protorev"))

	// parameters of the case
	allowed := []string{}
	for _, i := range su.Allowed {
		allowed = append(allowed, w.addrs[i].String())
	}
	app.LockupKeeper.SetParams(ctx, lockuptypes.NewParams(allowed))
	if su.Fee != "" && su.Fee != "0" {
		p := app.TokenFactoryKeeper.GetParams(ctx)
		p.DenomCreationFee = sdk.NewCoins(sdk.NewCoin("uosmo", mkInt(su.Fee)))
		app.TokenFactoryKeeper.SetParams(ctx, p)
	} else {
		p := app.TokenFactoryKeeper.GetParams(ctx)
		p.DenomCreationFee = nil
		app.TokenFactoryKeeper.SetParams(ctx, p)
	}
	up := []uint64{}
	for _, i := range su.Unpool {
		up = append(up, w.pools[i-1])
	}
	app.SuperfluidKeeper.SetUnpoolAllowedPools(ctx, up)
	w.ctx = ctx
	return w
}

func (w *world) static(su setup) static {
	app := w.h.App
	st := static{Names: w.names, Gov: w.ix(app.AccountKeeper.GetModuleAddress(govtypes.ModuleName).String()), NVals: len(w.vals),
		FeeDenom: "uosmo", Pools: w.pools, Protected: []int{}, Allowed: []int{}, Contracts: []int{}}
	for i, a := range w.addrs {
		if app.TokenFactoryKeeper.IsModuleAcc(w.ctx, a) {
			st.Protected = append(st.Protected, i)
		}
	}
	for _, a := range app.LockupKeeper.GetParams(w.ctx).ForceUnlockAllowedAddresses {
		st.Allowed = append(st.Allowed, w.ix(a))
	}
	sp, err := app.StakingKeeper.GetParams(w.ctx)
	must(err)
	st.Unbonding = int64(sp.UnbondingTime)
	for _, a := range app.SuperfluidKeeper.GetAllSuperfluidAssets(w.ctx) {
		st.SfAssets = append(st.SfAssets, a.Denom)
	}
	if w.contract >= 0 {
		st.Contracts = append(st.Contracts, w.contract)
	}
	st.Fee = app.TokenFactoryKeeper.GetParams(w.ctx).DenomCreationFee.AmountOf("uosmo").String()
	st.Unpool = app.SuperfluidKeeper.GetUnpoolAllowedPools(w.ctx)
	app.BankKeeper.IterateTotalSupply(w.ctx, func(c sdk.Coin) bool {
		st.Supply = append(st.Supply, w.denomOut(c.Denom))
		return false
	})
	for _, m := range app.BankKeeper.GetAllDenomMetaData(w.ctx) {
		if !strings.HasPrefix(m.Base, "factory/") {
			st.Meta = append(st.Meta, m.Base)
		}
	}
	if st.Unpool == nil {
		st.Unpool = []uint64{}
	}
	return st
}

// ---------------------------------------------------------------------------------------------------------------
// snapshot and digest
// ---------------------------------------------------------------------------------------------------------------

func (w *world) snapshot(ctx sdk.Context) snap {
	app := w.h.App
	s := snap{Pos: [][]string{}, Locks: [][]string{}, Denoms: [][]string{}, Bal: [][]string{}}
	g := app.ConcentratedLiquidityKeeper.ExportGenesis(ctx)
	s.NextPos = g.NextPositionId
	for _, pd := range g.PositionData {
		p := pd.Position
		active, lockID, err := app.ConcentratedLiquidityKeeper.PositionHasActiveUnderlyingLock(ctx, p.PositionId)
		must(err)
		if !active {
			lockID = 0
		}
		full := "0"
		if p.LowerTick == cltypes.MinInitializedTick && p.UpperTick == cltypes.MaxTick {
			full = "1"
		}
		s.Pos = append(s.Pos, []string{fmt.Sprint(p.PositionId), fmt.Sprint(w.ix(p.Address)), fmt.Sprint(p.PoolId),
			p.Liquidity.BigInt().String(), fmt.Sprint(lockID), full})
	}
	sort.Slice(s.Pos, func(i, j int) bool {
		return len(s.Pos[i][0]) < len(s.Pos[j][0]) || (len(s.Pos[i][0]) == len(s.Pos[j][0]) && s.Pos[i][0] < s.Pos[j][0])
	})

	locks, err := app.LockupKeeper.GetPeriodLocks(ctx)
	must(err)
	s.LastLock = app.LockupKeeper.GetLastLockID(ctx)
	for _, l := range locks {
		synth := "0"
		sl, found, err := app.LockupKeeper.GetSyntheticLockupByUnderlyingLockId(ctx, l.ID)
		must(err)
		if found {
			switch {
			case strings.Contains(sl.SynthDenom, "superbonding"):
				synth = "1"
			case strings.Contains(sl.SynthDenom, "superunbonding"):
				synth = "2"
			default:
				synth = "3"
			}
		}
		conn, cval := "0", "-1"
		if ia, ok := app.SuperfluidKeeper.GetIntermediaryAccountFromLockId(ctx, l.ID); ok {
			conn = "1"
			for vi, v := range w.vals {
				if v.String() == ia.ValAddr {
					cval = fmt.Sprint(vi)
				}
			}
		}
		unl := "0"
		if l.IsUnlocking() {
			unl = "1"
		}
		den, amt := "", "0"
		if len(l.Coins) == 1 {
			den, amt = w.denomOut(l.Coins[0].Denom), l.Coins[0].Amount.String()
		} else {
			den, amt = "multi:"+w.denomOut(l.Coins.String()), "0"
		}
		s.Locks = append(s.Locks, []string{fmt.Sprint(l.ID), fmt.Sprint(w.ix(l.Owner)), fmt.Sprint(w.ix(l.RewardReceiverAddress)), den, amt,
			fmt.Sprint(int64(l.Duration)), unl, synth, conn, cval})
	}
	sort.Slice(s.Locks, func(i, j int) bool {
		return len(s.Locks[i][0]) < len(s.Locks[j][0]) || (len(s.Locks[i][0]) == len(s.Locks[j][0]) && s.Locks[i][0] < s.Locks[j][0])
	})

	tg := app.TokenFactoryKeeper.ExportGenesis(ctx)
	for _, d := range tg.FactoryDenoms {
		hook := -1
		if h := app.TokenFactoryKeeper.GetBeforeSendHook(ctx, d.Denom); h != "" {
			hook = w.ix(h)
		}
		md, _ := app.BankKeeper.GetDenomMetaData(ctx, d.Denom)
		s.Denoms = append(s.Denoms, []string{w.denomOut(d.Denom), fmt.Sprint(w.ix(d.AuthorityMetadata.Admin)), fmt.Sprint(hook), md.Description})
	}
	sort.Slice(s.Denoms, func(i, j int) bool { return s.Denoms[i][0] < s.Denoms[j][0] })

	for i, a := range w.addrs {
		for _, c := range app.BankKeeper.GetAllBalances(ctx, a) {
			s.Bal = append(s.Bal, []string{fmt.Sprint(i), w.denomOut(c.Denom), c.Amount.String()})
		}
	}
	return s
}

// digest of the full state relevant to the property, from the modules' own exports
func (w *world) digest(ctx sdk.Context) string {
	app := w.h.App
	hsh := sha256.New()
	put := func(v interface{}) {
		b, err := json.Marshal(v)
		must(err)
		hsh.Write(b)
		hsh.Write([]byte{0})
	}
	bal := app.BankKeeper.GetAccountsBalances(ctx)
	sort.Slice(bal, func(i, j int) bool { return bal[i].Address < bal[j].Address })
	for _, b := range bal {
		put(b.Address)
		put(b.Coins.String())
	}
	put(app.BankKeeper.GetAllDenomMetaData(ctx))
	g := app.ConcentratedLiquidityKeeper.ExportGenesis(ctx)
	for _, pd := range g.PositionData {
		put(pd.Position.String())
		put(pd.LockId)
		put(pd.SpreadRewardAccumRecord.String())
		for _, r := range pd.UptimeAccumRecords {
			put(r.String())
		}
	}
	put(g.NextPositionId)
	for _, pd := range g.PoolData {
		put(pd.Pool.String())
	}
	lg := app.LockupKeeper.ExportGenesis(ctx)
	put(lg.String())
	put(app.LockupKeeper.GetParams(ctx).ForceUnlockAllowedAddresses)
	sg := app.SuperfluidKeeper.ExportGenesis(ctx)
	put(sg.String())
	tg := app.TokenFactoryKeeper.ExportGenesis(ctx)
	put(tg.String())
	for _, d := range tg.FactoryDenoms {
		put(app.TokenFactoryKeeper.GetBeforeSendHook(ctx, d.Denom))
	}
	dels, err := app.StakingKeeper.GetAllDelegations(ctx)
	must(err)
	for _, d := range dels {
		put(d.String())
	}
	return hex.EncodeToString(hsh.Sum(nil))[:24]
}

// ---------------------------------------------------------------------------------------------------------------
// operations
// ---------------------------------------------------------------------------------------------------------------

// error texts of the authorisation guards (the message servers wrap the keepers' errors as text, so the class is
// recovered from the text): cl NotPositionOwnerError / PositionOwnerMismatchError, lockup ErrNotLockOwner,
// sdk ErrUnauthorized (lockup ForceUnlock), tokenfactory ErrUnauthorized, superfluid LockOwnerMismatchError
var authMarks = []string{
	"is not the owner of position",
	"position owner mismatch",
	"msg sender is not the owner of specified lock",
	"unauthorized",
	"does not match provided owner",
}

func classify(err error) int {
	if err == nil {
		return 0
	}
	t := strings.ToLower(err.Error())
	for _, m := range authMarks {
		if strings.Contains(t, m) {
			return 1
		}
	}
	return 2
}

type vb interface{ ValidateBasic() error }

func (w *world) valStr(i int) string {
	if i < 0 || i >= len(w.vals) {
		return sdk.ValAddress([]byte("c20-no-such-validatr")).String()
	}
	return w.vals[i].String()
}

// build the sdk message of a modelled operation and the closure that sends it to the module's message server
func (w *world) build(o op) (sdk.Msg, func(ctx sdk.Context) (interface{}, error)) {
	app := w.h.App
	s := w.addrStr(o.S)
	clS := cl.NewMsgServerImpl(app.ConcentratedLiquidityKeeper)
	lkS := lockupkeeper.NewMsgServerImpl(app.LockupKeeper)
	sfS := superfluidkeeper.NewMsgServerImpl(app.SuperfluidKeeper)
	tfS := tfkeeper.NewMsgServerImpl(*app.TokenFactoryKeeper)
	den := w.denomIn(o.Den)
	switch o.K {
	// ---- concentrated liquidity
	case "cl_withdraw":
		raw := o.Amt
		if strings.HasPrefix(raw, "frac:") { // k quarters of the position's liquidity (4 = all of it)
			var k int64
			fmt.Sscanf(raw[5:], "%d", &k)
			cur := osmomath.NewInt(1_000_000_000_000_000_000)
			if p, err := app.ConcentratedLiquidityKeeper.GetPosition(w.ctx, uint64(o.ID)); err == nil {
				cur = osmomath.NewIntFromBigInt(p.Liquidity.BigInt())
			}
			if k < 4 {
				cur = cur.MulRaw(k).QuoRaw(4)
				if cur.IsZero() {
					cur = osmomath.OneInt()
				}
			}
			raw = cur.String()
		}
		liq := osmomath.NewDecFromBigIntWithPrec(mkInt(raw).BigInt(), 18)
		m := &cltypes.MsgWithdrawPosition{PositionId: uint64(o.ID), Sender: s, LiquidityAmount: liq}
		return m, func(c sdk.Context) (interface{}, error) { return clS.WithdrawPosition(c, m) }
	case "cl_add":
		m := &cltypes.MsgAddToPosition{PositionId: uint64(o.ID), Sender: s, Amount0: mkInt(o.Amt), Amount1: mkInt(o.Amt1),
			TokenMinAmount0: osmomath.ZeroInt(), TokenMinAmount1: osmomath.ZeroInt()}
		return m, func(c sdk.Context) (interface{}, error) { return clS.AddToPosition(c, m) }
	case "cl_transfer":
		m := &cltypes.MsgTransferPositions{PositionIds: o.IDs, Sender: s, NewOwner: w.addrStr(o.To)}
		return m, func(c sdk.Context) (interface{}, error) { return clS.TransferPositions(c, m) }
	case "cl_collect_spread":
		m := &cltypes.MsgCollectSpreadRewards{PositionIds: o.IDs, Sender: s}
		return m, func(c sdk.Context) (interface{}, error) { return clS.CollectSpreadRewards(c, m) }
	case "cl_collect_incentives":
		m := &cltypes.MsgCollectIncentives{PositionIds: o.IDs, Sender: s}
		return m, func(c sdk.Context) (interface{}, error) { return clS.CollectIncentives(c, m) }
	// ---- lockup
	case "lk_begin_unlock":
		coins := sdk.Coins{}
		if o.Amt != "" {
			coins = sdk.Coins{sdk.NewCoin(den, mkInt(o.Amt))}
		}
		m := &lockuptypes.MsgBeginUnlocking{Owner: s, ID: uint64(o.ID), Coins: coins}
		return m, func(c sdk.Context) (interface{}, error) { return lkS.BeginUnlocking(c, m) }
	case "lk_begin_unlock_all":
		m := &lockuptypes.MsgBeginUnlockingAll{Owner: s}
		return m, func(c sdk.Context) (interface{}, error) { return lkS.BeginUnlockingAll(c, m) }
	case "lk_extend":
		m := &lockuptypes.MsgExtendLockup{Owner: s, ID: uint64(o.ID), Duration: time.Duration(o.Dur) * time.Second}
		return m, func(c sdk.Context) (interface{}, error) { return lkS.ExtendLockup(c, m) }
	case "lk_set_receiver":
		m := &lockuptypes.MsgSetRewardReceiverAddress{Owner: s, LockID: uint64(o.ID), RewardReceiver: w.addrStr(o.To)}
		return m, func(c sdk.Context) (interface{}, error) { return lkS.SetRewardReceiverAddress(c, m) }
	case "lk_force_unlock":
		coins := sdk.Coins{}
		if o.Amt != "" {
			coins = sdk.Coins{sdk.NewCoin(den, mkInt(o.Amt))}
		}
		m := &lockuptypes.MsgForceUnlock{Owner: s, ID: uint64(o.ID), Coins: coins}
		return m, func(c sdk.Context) (interface{}, error) { return lkS.ForceUnlock(c, m) }
	// ---- superfluid
	case "sf_delegate":
		m := &superfluidtypes.MsgSuperfluidDelegate{Sender: s, LockId: uint64(o.ID), ValAddr: w.valStr(o.Val)}
		return m, func(c sdk.Context) (interface{}, error) { return sfS.SuperfluidDelegate(c, m) }
	case "sf_undelegate":
		m := &superfluidtypes.MsgSuperfluidUndelegate{Sender: s, LockId: uint64(o.ID)}
		return m, func(c sdk.Context) (interface{}, error) { return sfS.SuperfluidUndelegate(c, m) }
	case "sf_unbond":
		m := &superfluidtypes.MsgSuperfluidUnbondLock{Sender: s, LockId: uint64(o.ID)}
		return m, func(c sdk.Context) (interface{}, error) { return sfS.SuperfluidUnbondLock(c, m) }
	case "sf_undelegate_unbond":
		m := &superfluidtypes.MsgSuperfluidUndelegateAndUnbondLock{Sender: s, LockId: uint64(o.ID), Coin: sdk.NewCoin(den, mkInt(o.Amt))}
		return m, func(c sdk.Context) (interface{}, error) { return sfS.SuperfluidUndelegateAndUnbondLock(c, m) }
	case "sf_lock_delegate":
		m := &superfluidtypes.MsgLockAndSuperfluidDelegate{Sender: s, Coins: sdk.Coins{sdk.NewCoin(den, mkInt(o.Amt))}, ValAddr: w.valStr(o.Val)}
		return m, func(c sdk.Context) (interface{}, error) { return sfS.LockAndSuperfluidDelegate(c, m) }
	case "sf_unpool":
		m := &superfluidtypes.MsgUnPoolWhitelistedPool{Sender: s, PoolId: uint64(o.ID)}
		return m, func(c sdk.Context) (interface{}, error) { return sfS.UnPoolWhitelistedPool(c, m) }
	case "sf_unlock_migrate":
		m := &superfluidtypes.MsgUnlockAndMigrateSharesToFullRangeConcentratedPosition{Sender: s, LockId: o.ID,
			SharesToMigrate: sdk.NewCoin(den, mkInt(o.Amt))}
		return m, func(c sdk.Context) (interface{}, error) {
			return sfS.UnlockAndMigrateSharesToFullRangeConcentratedPosition(c, m)
		}
	case "sf_add_to_cl":
		m := &superfluidtypes.MsgAddToConcentratedLiquiditySuperfluidPosition{PositionId: uint64(o.ID), Sender: s,
			TokenDesired0: sdk.NewCoin(w.bond, mkInt(o.Amt)), TokenDesired1: sdk.NewCoin("usdc", mkInt(o.Amt1))}
		return m, func(c sdk.Context) (interface{}, error) {
			return sfS.AddToConcentratedLiquiditySuperfluidPosition(c, m)
		}
	case "sf_unbond_convert_stake":
		m := &superfluidtypes.MsgUnbondConvertAndStake{LockId: uint64(o.ID), Sender: s, ValAddr: w.valStr(o.Val),
			MinAmtToStake: osmomath.ZeroInt(), SharesToConvert: sdk.NewCoin(den, mkInt(o.Amt))}
		return m, func(c sdk.Context) (interface{}, error) { return sfS.UnbondConvertAndStake(c, m) }
	// ---- tokenfactory
	case "tf_create":
		m := &tftypes.MsgCreateDenom{Sender: s, Subdenom: o.Sub}
		return m, func(c sdk.Context) (interface{}, error) { return tfS.CreateDenom(c, m) }
	case "tf_mint":
		m := &tftypes.MsgMint{Sender: s, Amount: sdk.Coin{Denom: den, Amount: mkInt(o.Amt)}, MintToAddress: w.addrStr(o.To)}
		return m, func(c sdk.Context) (interface{}, error) { return tfS.Mint(c, m) }
	case "tf_burn":
		m := &tftypes.MsgBurn{Sender: s, Amount: sdk.Coin{Denom: den, Amount: mkInt(o.Amt)}, BurnFromAddress: w.addrStr(o.From)}
		return m, func(c sdk.Context) (interface{}, error) { return tfS.Burn(c, m) }
	case "tf_force_transfer":
		m := &tftypes.MsgForceTransfer{Sender: s, Amount: sdk.Coin{Denom: den, Amount: mkInt(o.Amt)},
			TransferFromAddress: w.addrStr(o.From), TransferToAddress: w.addrStr(o.To)}
		return m, func(c sdk.Context) (interface{}, error) { return tfS.ForceTransfer(c, m) }
	case "tf_change_admin":
		m := &tftypes.MsgChangeAdmin{Sender: s, Denom: den, NewAdmin: w.addrStr(o.To)}
		return m, func(c sdk.Context) (interface{}, error) { return tfS.ChangeAdmin(c, m) }
	case "tf_set_metadata":
		md := banktypes.Metadata{Description: o.Sub, DenomUnits: []*banktypes.DenomUnit{{Denom: den, Exponent: 0}}, Base: den,
			Display: den, Name: den, Symbol: den}
		if o.Bad {
			md.Display = "nosuchunit"
		}
		m := &tftypes.MsgSetDenomMetadata{Sender: s, Metadata: md}
		return m, func(c sdk.Context) (interface{}, error) { return tfS.SetDenomMetadata(c, m) }
	case "tf_set_hook":
		m := &tftypes.MsgSetBeforeSendHook{Sender: s, Denom: den, CosmwasmAddress: w.addrStr(o.To)}
		return m, func(c sdk.Context) (interface{}, error) { return tfS.SetBeforeSendHook(c, m) }
	}
	return nil, nil
}

// history-only operations (they create objects owned by the sender or move the clock; not part of the modelled inventory)
func (w *world) history(ctx sdk.Context, o op) (bool, error) {
	app := w.h.App
	switch o.K {
	case "h_create_position":
		ms := cl.NewMsgServerImpl(app.ConcentratedLiquidityKeeper)
		pool, err := app.ConcentratedLiquidityKeeper.GetConcentratedPoolById(ctx, uint64(o.ID))
		if err != nil {
			return true, err
		}
		_, err = ms.CreatePosition(ctx, &cltypes.MsgCreatePosition{PoolId: uint64(o.ID), Sender: w.addrStr(o.S), LowerTick: o.Lo, UpperTick: o.Hi,
			TokensProvided:  sdk.NewCoins(sdk.NewCoin(pool.GetToken0(), mkInt(o.Amt)), sdk.NewCoin(pool.GetToken1(), mkInt(o.Amt1))),
			TokenMinAmount0: osmomath.ZeroInt(), TokenMinAmount1: osmomath.ZeroInt()})
		return true, err
	case "h_create_full_locked": // full range position with a lock of the unbonding duration, superfluid delegated to Val
		ms := superfluidkeeper.NewMsgServerImpl(app.SuperfluidKeeper)
		pool, err := app.ConcentratedLiquidityKeeper.GetConcentratedPoolById(ctx, uint64(o.ID))
		if err != nil {
			return true, err
		}
		_, err = ms.CreateFullRangePositionAndSuperfluidDelegate(ctx, &superfluidtypes.MsgCreateFullRangePositionAndSuperfluidDelegate{
			Sender: w.addrStr(o.S), PoolId: uint64(o.ID), ValAddr: w.valStr(o.Val),
			Coins: sdk.NewCoins(sdk.NewCoin(pool.GetToken0(), mkInt(o.Amt)), sdk.NewCoin(pool.GetToken1(), mkInt(o.Amt1)))})
		return true, err
	case "h_lock":
		ms := lockupkeeper.NewMsgServerImpl(app.LockupKeeper)
		_, err := ms.LockTokens(ctx, &lockuptypes.MsgLockTokens{Owner: w.addrStr(o.S), Duration: time.Duration(o.Dur) * time.Second,
			Coins: sdk.Coins{sdk.NewCoin(w.denomIn(o.Den), mkInt(o.Amt))}})
		return true, err
	case "h_swap":
		pool, err := app.ConcentratedLiquidityKeeper.GetConcentratedPoolById(ctx, uint64(o.ID))
		if err != nil {
			return true, err
		}
		in, out := pool.GetToken0(), pool.GetToken1()
		if o.Bad {
			in, out = out, in
		}
		_, err = app.PoolManagerKeeper.RouteExactAmountIn(ctx, w.addrs[o.S], []poolmanagertypes.SwapAmountInRoute{{PoolId: uint64(o.ID), TokenOutDenom: out}},
			sdk.NewCoin(in, mkInt(o.Amt)), osmomath.OneInt())
		return true, err
	case "h_incentive":
		_, err := app.ConcentratedLiquidityKeeper.CreateIncentive(ctx, uint64(o.ID), w.addrs[o.S], sdk.NewCoin(w.denomIn(o.Den), mkInt(o.Amt)),
			osmomath.NewDec(1000), ctx.BlockTime(), time.Nanosecond)
		return true, err
	case "h_send":
		return true, app.BankKeeper.SendCoins(ctx, w.addrs[o.S], w.addrs[o.To], sdk.NewCoins(sdk.NewCoin(w.denomIn(o.Den), mkInt(o.Amt))))
	}
	return false, nil
}

func (w *world) advance(o op) {
	// the clock moves by Dur seconds; lockup's end blocker (matured synthetic locks are deleted, matured locks paid out)
	w.ctx = w.ctx.WithBlockTime(w.ctx.BlockTime().Add(time.Duration(o.Dur) * time.Second)).WithBlockHeight(w.ctx.BlockHeight() + 1)
	lockup.EndBlocker(w.ctx.WithBlockHeight(120), *w.h.App.LockupKeeper)
}

func (w *world) run(o op) step {
	st := step{VB: 2}
	if w.d0 == "" {
		w.d0 = w.digest(w.ctx)
	}
	st.D0 = w.d0
	if o.K == "h_time" {
		w.d0 = ""
		w.advance(o)
		st.D1 = w.digest(w.ctx)
		p := w.snapshot(w.ctx)
		st.Post = &p
		return st
	}
	msg, send := w.build(o)
	var resp interface{}
	f := func(c sdk.Context) error {
		if msg != nil {
			r, err := send(c)
			resp = r
			return err
		}
		ok, err := w.history(c, o)
		if !ok {
			panic("unknown operation kind " + o.K)
		}
		return err
	}
	if msg != nil {
		if v, ok := msg.(vb); ok {
			st.VB = 0
			if v.ValidateBasic() != nil {
				st.VB = 1
			}
		}
	}
	base := w.ctx
	branch, writeBranch := base.CacheContext()
	err := apph.Atomic(branch, f)
	if err != nil {
		st.R = 1
		st.Err = err.Error()
		if len(st.Err) > 160 {
			st.Err = st.Err[:160]
		}
		if strings.HasPrefix(st.Err, "panic:") {
			st.R = 2
		}
		st.EC = classify(err)
	}
	st.D1 = w.digest(branch)
	if err == nil {
		p := w.snapshot(branch)
		st.Post = &p
		if r, ok := resp.(*tftypes.MsgCreateDenomResponse); ok && r != nil {
			st.NewDn = w.denomOut(r.NewTokenDenom)
		}
		if o.C {
			writeBranch()
			w.d0 = ""
		}
	}
	return st
}

func runCase(t *testing.T, c cs) (o obs) {
	defer func() {
		if r := recover(); r != nil {
			o = obs{Err: fmt.Sprintf("driver panic: %v", r)}
		}
	}()
	w := newWorld(t, c.Setup)
	o.Static = w.static(c.Setup)
	o.Init = w.snapshot(w.ctx)
	for _, p := range c.Ops {
		o.Steps = append(o.Steps, w.run(p))
	}
	return o
}

func TestDriver(t *testing.T) {
	apph.Serve(t, runCase)
}
