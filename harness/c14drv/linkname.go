package main

import (
	_ "unsafe" // go:linkname

	"github.com/osmosis-labs/osmosis/osmomath"
	_ "github.com/osmosis-labs/osmosis/v31/x/concentrated-liquidity"
)

// The two range helpers of x/concentrated-liquidity/tick.go are unexported (export_test.go only serves that
// package's own tests).  They are reached here by symbol name, leaving /repo untouched.

//go:linkname validateTickRangeIsValid github.com/osmosis-labs/osmosis/v31/x/concentrated-liquidity.validateTickRangeIsValid
func validateTickRangeIsValid(tickSpacing uint64, lowerTick int64, upperTick int64) error

//go:linkname roundTickToCanonicalPriceTick github.com/osmosis-labs/osmosis/v31/x/concentrated-liquidity.roundTickToCanonicalPriceTick
func roundTickToCanonicalPriceTick(lowerTick, upperTick int64, sqrtPriceTickLower, sqrtPriceTickUpper osmomath.BigDec, tickSpacing uint64) (int64, int64, error)
