// c14drv runs the real tick/price conversion functions of /repo (x/concentrated-liquidity/math and,
// through linkname.go, the two unexported range helpers of x/concentrated-liquidity/tick.go) on cases
// read from stdin (one JSON case per line) and prints one JSON observation per case:
// {"z":[decimal strings...]} - error values are projected to a small enum, BigDec values are printed as
// their raw 10^36 mantissa.
package main

import (
	"bufio"
	"encoding/json"
	"errors"
	"fmt"
	"math/big"
	"os"

	"github.com/osmosis-labs/osmosis/osmomath"
	clmath "github.com/osmosis-labs/osmosis/v31/x/concentrated-liquidity/math"
	"github.com/osmosis-labs/osmosis/v31/x/concentrated-liquidity/types"
)

type tcase struct {
	Op      string `json:"op"`
	Tick    int64  `json:"tick"`
	Tick2   int64  `json:"tick2"`
	Spacing uint64 `json:"spacing"`
	X       string `json:"x"` // raw BigDec mantissa (x 10^36)
	Y       string `json:"y"`
}

type obs struct {
	Z   []string `json:"z"`
	Err string   `json:"err,omitempty"`
}

func errCode(err error) int64 {
	if err == nil {
		return 0
	}
	switch err.(type) {
	case types.TickIndexMinimumError:
		return 1
	case types.TickIndexMaximumError:
		return 2
	case types.PriceBoundError:
		return 3
	case types.SqrtPriceToTickError:
		return 6
	case types.TickIndexNotWithinBoundariesError:
		return 7
	case types.TickSpacingError:
		return 8
	case types.InvalidTickError:
		return 9
	case types.InvalidLowerUpperTickError:
		return 10
	}
	if errors.Is(err, types.ErrCalculateSqrtPriceToTick) {
		return 5
	}
	if err.Error() == "price must be greater than zero" {
		return 4
	}
	return 98
}

func raw(s string) osmomath.BigDec {
	i, ok := new(big.Int).SetString(s, 10)
	if !ok {
		panic("bad integer " + s)
	}
	return osmomath.NewBigDecFromBigIntWithPrec(i, osmomath.BigDecPrecision)
}

func bigs(d osmomath.BigDec, err error) string {
	if err != nil || d.IsNil() {
		return "0"
	}
	return d.BigInt().String()
}

func i64(x int64) string { return fmt.Sprintf("%d", x) }

func onErr(x int64, err error) int64 {
	if err != nil {
		return 0
	}
	return x
}

func run(c tcase) (o obs) {
	defer func() {
		if r := recover(); r != nil {
			o = obs{Z: []string{"99"}, Err: fmt.Sprint(r)}
		}
	}()
	switch c.Op {
	case "t2p": // tick -> indices, price, sqrt price
		add, geo, e1 := clmath.TickToAdditiveGeometricIndices(c.Tick)
		p, e2 := clmath.TickToPrice(c.Tick)
		s, e3 := clmath.TickToSqrtPrice(c.Tick)
		return obs{Z: []string{i64(errCode(e1)), i64(onErr(add, e1)), i64(onErr(geo, e1)), i64(errCode(e2)), bigs(p, e2), i64(errCode(e3)), bigs(s, e3)}}
	case "p2t": // price -> tick
		t, e := clmath.CalculatePriceToTick(raw(c.X))
		return obs{Z: []string{i64(errCode(e)), i64(onErr(t, e))}}
	case "s2t": // sqrt price -> tick, and rounded down to the spacing
		x := raw(c.X)
		t, e := clmath.CalculateSqrtPriceToTick(x)
		t2, e2 := clmath.SqrtPriceToTickRoundDownSpacing(raw(c.X), c.Spacing)
		if x.BigInt().String() != c.X {
			panic("CalculateSqrtPriceToTick mutated its argument")
		}
		return obs{Z: []string{i64(errCode(e)), i64(onErr(t, e)), i64(errCode(e2)), i64(onErr(t2, e2))}}
	case "rd": // round a tick down to a spacing
		t, e := clmath.RoundDownTickToSpacing(c.Tick, int64(c.Spacing))
		return obs{Z: []string{i64(errCode(e)), i64(onErr(t, e))}}
	case "val": // validateTickRangeIsValid
		e := validateTickRangeIsValid(c.Spacing, c.Tick, c.Tick2)
		return obs{Z: []string{i64(errCode(e))}}
	case "canon": // roundTickToCanonicalPriceTick on given sqrt prices
		lo, hi, e := roundTickToCanonicalPriceTick(c.Tick, c.Tick2, raw(c.X), raw(c.Y), c.Spacing)
		return obs{Z: []string{i64(errCode(e)), i64(onErr(lo, e)), i64(onErr(hi, e))}}
	case "canont": // the call sequence of lp.go: TicksToSqrtPrice then roundTickToCanonicalPriceTick
		sl, su, e0 := clmath.TicksToSqrtPrice(c.Tick, c.Tick2)
		if e0 != nil {
			return obs{Z: []string{i64(errCode(e0)), "0", "0"}}
		}
		lo, hi, e := roundTickToCanonicalPriceTick(c.Tick, c.Tick2, sl, su, c.Spacing)
		return obs{Z: []string{i64(errCode(e)), i64(onErr(lo, e)), i64(onErr(hi, e))}}
	case "consts":
		sp := []string{}
		for _, s := range types.AuthorizedTickSpacing {
			sp = append(sp, fmt.Sprintf("%d", s))
		}
		z := []string{i64(types.MinInitializedTick), i64(types.MaxTick), i64(types.MinCurrentTick), i64(types.MinInitializedTickV2),
			i64(types.MinCurrentTickV2), i64(types.ExponentAtPriceOne),
			types.MaxSpotPriceBigDec.BigInt().String(), types.MinSpotPriceBigDec.BigInt().String(), types.MinSpotPriceV2.BigInt().String(),
			types.MaxSqrtPriceBigDec.BigInt().String(), types.MinSqrtPriceBigDec.BigInt().String()}
		return obs{Z: append(z, sp...)}
	}
	panic("unknown op " + c.Op)
}

func main() {
	in := bufio.NewReaderSize(os.Stdin, 1<<20)
	out := bufio.NewWriterSize(os.Stdout, 1<<20)
	defer out.Flush()
	dec := json.NewDecoder(in)
	enc := json.NewEncoder(out)
	for dec.More() {
		var c tcase
		if err := dec.Decode(&c); err != nil {
			fmt.Fprintln(os.Stderr, "bad case:", err)
			os.Exit(2)
		}
		if err := enc.Encode(run(c)); err != nil {
			os.Exit(2)
		}
	}
}
