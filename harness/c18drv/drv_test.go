// Package c18drv drives the real x/mint keeper (full app) for property C18: one fresh chain per case,
// mint params / minter / last-reduction epoch installed through the keeper's own InitGenesis, then a list of
// AfterEpochEnd calls, each run atomically (apph.Atomic); after every call the projected observables are printed.
package c18drv

import (
	"fmt"
	"math/big"
	"testing"

	sdk "github.com/cosmos/cosmos-sdk/types"
	authtypes "github.com/cosmos/cosmos-sdk/x/auth/types"
	distrtypes "github.com/cosmos/cosmos-sdk/x/distribution/types"

	"github.com/osmosis-labs/osmosis/osmomath"
	incentivestypes "github.com/osmosis-labs/osmosis/v31/x/incentives/types"
	minttypes "github.com/osmosis-labs/osmosis/v31/x/mint/types"
	pitypes "github.com/osmosis-labs/osmosis/v31/x/pool-incentives/types"

	"verifharness/apph"
)

type recv struct {
	A int    `json:"a"` // -1: empty address (community pool); k >= 0: k-th receiver address; -2: a blocked (module) address
	W string `json:"w"` // weight, raw 10^-18 units
}

type drec struct {
	G int    `json:"g"` // 0: community pool record; k >= 1: k-th perpetual gauge created by the driver
	W string `json:"w"` // integer weight
}

type call struct {
	E  int64 `json:"e"`  // epoch number
	ID int   `json:"id"` // 0: the mint epoch identifier; 1: some other identifier
}

type cs struct {
	Props   []string `json:"props"` // staking, pool incentives, developer, community (raw 10^-18 units)
	Factor  string   `json:"factor"`
	Period  int64    `json:"period"`
	Start   int64    `json:"start"`
	Recv    []recv   `json:"recv"`
	Prov    string   `json:"prov"`
	Last    int64    `json:"last"`
	Vest    string   `json:"vest"`    // balance of the developer vesting account before the first call
	PoolPre string   `json:"poolpre"` // optional: balance put into the pool-incentives module account before the first call
	NA      int      `json:"na"`      // number of distinct receiver addresses observed
	Distr   []drec   `json:"distr"`
	Calls   []call   `json:"calls"`
	Probe   bool     `json:"probe"`
}

type obs struct {
	Err   string     `json:"err,omitempty"`
	Init  []string   `json:"init"`
	Steps [][]string `json:"steps"` // per call: status (0 ok, 1 error, 2 panic) followed by the observation vector
	Msgs  []string   `json:"msgs,omitempty"`
}

const denom = "uosmo"
const mintID = "week"
const otherID = "day"

func decRaw(s string) osmomath.Dec {
	b, ok := new(big.Int).SetString(s, 10)
	if !ok {
		panic("bad integer " + s)
	}
	return osmomath.NewDecFromBigIntWithPrec(b, 18)
}

func intOf(s string) osmomath.Int {
	b, ok := osmomath.NewIntFromString(s)
	if !ok {
		panic("bad integer " + s)
	}
	return b
}

func recvAddr(i int) sdk.AccAddress {
	return sdk.AccAddress([]byte(fmt.Sprintf("c18-receiver-addr-%02d", i)))
}

func run(t *testing.T, c cs) (o obs) {
	defer func() {
		if r := recover(); r != nil {
			o = obs{Err: fmt.Sprintf("driver panic: %v", r)}
		}
	}()
	h := apph.New(t)
	app := h.App
	ctx := h.Ctx
	mk := app.MintKeeper
	bk := app.BankKeeper
	ak := app.AccountKeeper

	// perpetual gauges for the pool-incentives distribution records
	maxG := 0
	for _, d := range c.Distr {
		if d.G > maxG {
			maxG = d.G
		}
	}
	var gaugeIDs []uint64
	if maxG > 0 {
		poolID := h.PrepareBalancerPool()
		durs := app.PoolIncentivesKeeper.GetLockableDurations(ctx)
		for _, d := range durs {
			g, err := app.PoolIncentivesKeeper.GetPoolGaugeId(ctx, poolID, d)
			if err != nil {
				panic(err)
			}
			gaugeIDs = append(gaugeIDs, g)
		}
		for len(gaugeIDs) < maxG {
			poolID = h.PrepareBalancerPool()
			for _, d := range durs {
				g, err := app.PoolIncentivesKeeper.GetPoolGaugeId(ctx, poolID, d)
				if err != nil {
					panic(err)
				}
				gaugeIDs = append(gaugeIDs, g)
			}
		}
	}
	app.PoolIncentivesKeeper.SetParams(ctx, pitypes.Params{MintedDenom: denom})
	recs := []pitypes.DistrRecord{}
	for _, d := range c.Distr {
		id := uint64(0)
		if d.G > 0 {
			id = gaugeIDs[d.G-1]
		}
		recs = append(recs, pitypes.DistrRecord{GaugeId: id, Weight: intOf(d.W)})
	}
	if err := app.PoolIncentivesKeeper.ReplaceDistrRecords(ctx, recs...); err != nil {
		panic(err)
	}

	// mint params, minter, last reduction epoch: through the keeper's InitGenesis (the vesting account exists already)
	var ws []minttypes.WeightedAddress
	for _, r := range c.Recv {
		a := ""
		switch {
		case r.A >= 0:
			a = recvAddr(r.A).String()
		case r.A == -2:
			a = ak.GetModuleAddress(authtypes.FeeCollectorName).String()
		}
		ws = append(ws, minttypes.WeightedAddress{Address: a, Weight: decRaw(r.W)})
	}
	params := minttypes.Params{
		MintDenom:               denom,
		GenesisEpochProvisions:  decRaw(c.Prov),
		EpochIdentifier:         mintID,
		ReductionPeriodInEpochs: c.Period,
		ReductionFactor:         decRaw(c.Factor),
		DistributionProportions: minttypes.DistributionProportions{
			Staking: decRaw(c.Props[0]), PoolIncentives: decRaw(c.Props[1]),
			DeveloperRewards: decRaw(c.Props[2]), CommunityPool: decRaw(c.Props[3]),
		},
		WeightedDeveloperRewardsReceivers:    ws,
		MintingRewardsDistributionStartEpoch: c.Start,
	}
	if err := params.Validate(); err != nil {
		return obs{Err: "invalid params: " + err.Error()}
	}
	mk.InitGenesis(ctx, &minttypes.GenesisState{Minter: minttypes.NewMinter(decRaw(c.Prov)), Params: params, ReductionStartedEpoch: c.Last})

	// developer vesting balance
	vestAddr := ak.GetModuleAddress(minttypes.DeveloperVestingModuleAcctName)
	want := intOf(c.Vest)
	have := bk.GetBalance(ctx, vestAddr, denom).Amount
	if want.GT(have) {
		d := want.Sub(have)
		if err := bk.MintCoins(ctx, minttypes.DeveloperVestingModuleAcctName, sdk.NewCoins(sdk.NewCoin(denom, d))); err != nil {
			panic(err)
		}
		bk.AddSupplyOffset(ctx, denom, d.Neg())
	} else if want.LT(have) {
		d := have.Sub(want)
		sink := sdk.AccAddress([]byte("c18-sink-address----"))
		if err := bk.SendCoinsFromModuleToAccount(ctx, minttypes.DeveloperVestingModuleAcctName, sink, sdk.NewCoins(sdk.NewCoin(denom, d))); err != nil {
			panic(err)
		}
		bk.AddSupplyOffset(ctx, denom, d)
	}

	if c.PoolPre != "" && c.PoolPre != "0" {
		h.FundModuleAcc(pitypes.ModuleName, sdk.NewCoins(sdk.NewCoin(denom, intOf(c.PoolPre))))
	}

	bal := func(c sdk.Context, a sdk.AccAddress) string { return bk.GetBalance(c, a, denom).Amount.String() }
	var msgs []string
	observe := func(c2 sdk.Context) []string {
		v := []string{
			bal(c2, ak.GetModuleAddress(minttypes.ModuleName)),
			bal(c2, ak.GetModuleAddress(authtypes.FeeCollectorName)),
			bal(c2, ak.GetModuleAddress(pitypes.ModuleName)),
			bal(c2, ak.GetModuleAddress(incentivestypes.ModuleName)),
			bal(c2, ak.GetModuleAddress(distrtypes.ModuleName)),
		}
		fp, err := app.DistrKeeper.FeePool.Get(c2)
		if err != nil {
			panic(err)
		}
		cp := fp.CommunityPool.AmountOf(denom)
		v = append(v, cp.TruncateInt().String())
		if !cp.TruncateDec().Equal(cp) {
			msgs = append(msgs, "community pool has a fractional amount "+cp.String())
		}
		v = append(v, bal(c2, vestAddr))
		for i := 0; i < c.NA; i++ {
			v = append(v, bal(c2, recvAddr(i)))
		}
		v = append(v, bk.GetSupply(c2, denom).Amount.String())
		v = append(v, bk.GetSupplyOffset(c2, denom).String())
		// reported supply must be supply + offset
		if !bk.GetSupplyWithOffset(c2, denom).Amount.Equal(bk.GetSupply(c2, denom).Amount.Add(bk.GetSupplyOffset(c2, denom))) {
			msgs = append(msgs, "GetSupplyWithOffset != supply + offset")
		}
		v = append(v, mk.GetMinter(c2).EpochProvisions.BigInt().String())
		v = append(v, fmt.Sprintf("%d", mk.ExportGenesis(c2).ReductionStartedEpoch))
		return v
	}
	o.Init = observe(ctx)
	if c.Probe {
		msgs = append(msgs, fmt.Sprintf("default mint params: %+v", minttypes.DefaultParams()))
	}
	for _, cl := range c.Calls {
		id := mintID
		if cl.ID != 0 {
			id = otherID
		}
		err := apph.Atomic(ctx, func(cc sdk.Context) error { return mk.AfterEpochEnd(cc, id, cl.E) })
		st := "0"
		if err != nil {
			st = "1"
			if len(err.Error()) >= 6 && err.Error()[:6] == "panic:" {
				st = "2"
			}
			if c.Probe {
				msgs = append(msgs, err.Error())
			}
		}
		o.Steps = append(o.Steps, append([]string{st}, observe(ctx)...))
	}
	o.Msgs = msgs
	return o
}

func TestDriver(t *testing.T) {
	apph.Serve(t, run)
}
