// Package c10drv drives the real x/twap keeper of /repo on a full app for property C10.
//
// One case = one fresh chain and a history of operations: pool creations (balancer, concentrated), price-moving
// operations (swaps, joins, exits, position creation / withdrawal), block ends with irregular block times (the twap
// EndBlock is run and the transient "changed pools" store is cleared the way a commit clears it), pruning passes
// (pruning state set directly, or through the epoch hook) and TWAP queries.  Everything is observed through exported
// keeper methods; the raw outputs of PoolManager.RouteCalculateSpotPrice (the inputs of twap.getSpotPrices) are read in
// the same state the twap module reads them and are handed to the model as case inputs.
//
// Observation: {"flat":[decimal strings...]} - the concatenation of one block of numbers per operation and a final
// dump of every stored historical record (see props/c10.py for the layout).
package c10drv

import (
	"errors"
	"fmt"
	"math/big"
	"sort"
	"strings"
	"testing"
	"time"

	sdk "github.com/cosmos/cosmos-sdk/types"

	"github.com/osmosis-labs/osmosis/osmomath"
	cl "github.com/osmosis-labs/osmosis/v31/x/concentrated-liquidity"
	cltypes "github.com/osmosis-labs/osmosis/v31/x/concentrated-liquidity/types"
	"github.com/osmosis-labs/osmosis/v31/x/gamm/pool-models/balancer"
	"github.com/osmosis-labs/osmosis/v31/x/twap"
	twaptypes "github.com/osmosis-labs/osmosis/v31/x/twap/types"

	"verifharness/apph"
)

type op struct {
	Op      string   `json:"op"`
	Denoms  []string `json:"denoms,omitempty"`
	Amts    []string `json:"amts,omitempty"`
	Weights []int64  `json:"weights,omitempty"`
	Pool    uint64   `json:"pool,omitempty"`
	Pos     int      `json:"pos,omitempty"`
	In      string   `json:"in,omitempty"`
	Out     string   `json:"out,omitempty"`
	Amt     string   `json:"amt,omitempty"`
	Dt      int64    `json:"dt,omitempty"`
	Keep    int64    `json:"keep,omitempty"`
	Last    uint64   `json:"last,omitempty"`
	Kind    int      `json:"kind,omitempty"`
	ToNow   bool     `json:"tonow,omitempty"`
	Base    string   `json:"base,omitempty"`
	Quote   string   `json:"quote,omitempty"`
	Start   int64    `json:"start,omitempty"`
	End     int64    `json:"end,omitempty"`
}

type tcase struct {
	T0         int64  `json:"t0"`
	PruneLimit uint16 `json:"prune_limit"`
	KeepPeriod int64  `json:"keep_period"`
	Ops        []op   `json:"ops"`
}

type obs struct {
	Flat []string `json:"flat"`
	Err  string   `json:"err,omitempty"`
}

var billion = big.NewInt(1_000_000_000)

// the module's own per-block pruning limit (a package variable the driver lowers for some cases)
var defaultPruneLimit = twap.NumRecordsToPrunePerBlock

// tstr: a time as (possibly negative, possibly > int64) unix nanoseconds; time.Time{} is -62135596800e9
func tstr(t time.Time) string {
	b := new(big.Int).Mul(big.NewInt(t.Unix()), billion)
	b.Add(b, big.NewInt(int64(t.Nanosecond())))
	return b.String()
}

func tm(ns int64) time.Time { return time.Unix(0, ns).UTC() }

func mustInt(s string) osmomath.Int {
	i, ok := osmomath.NewIntFromString(s)
	if !ok {
		panic("bad int " + s)
	}
	return i
}

type runner struct {
	h     *apph.Helper
	out   []string
	pools []uint64            // pool ids in creation order
	posns map[uint64][]uint64 // CL pool -> position ids created by the driver
}

func (r *runner) put(xs ...string) { r.out = append(r.out, xs...) }
func (r *runner) puti(x int64)      { r.out = append(r.out, fmt.Sprintf("%d", x)) }
func b2i(b bool) int64 {
	if b {
		return 1
	}
	return 0
}

// raw spot price as the twap module's getSpotPrices obtains it: (error?, zero-value BigDec?, mantissa x 10^36)
func (r *runner) raw(ctx sdk.Context, pool uint64, quote, base string) {
	var sp osmomath.BigDec
	var err error
	func() {
		defer func() {
			if rec := recover(); rec != nil {
				err = fmt.Errorf("panic: %v", rec)
			}
		}()
		sp, err = r.h.App.PoolManagerKeeper.RouteCalculateSpotPrice(ctx, pool, quote, base)
	}()
	r.puti(b2i(err != nil))
	if sp.IsNil() {
		r.puti(1)
		r.put("0")
	} else {
		r.puti(0)
		r.put(sp.BigInt().String())
	}
}

func (r *runner) pairs(ctx sdk.Context, pool uint64) [][2]string {
	denoms, err := r.h.App.PoolManagerKeeper.RouteGetPoolDenoms(ctx, pool)
	if err != nil {
		return nil
	}
	ps := twaptypes.GetAllUniqueDenomPairs(denoms)
	res := make([][2]string, len(ps))
	for i, p := range ps {
		res[i] = [2]string{p.Denom0, p.Denom1}
	}
	return res
}

func (r *runner) raws(ctx sdk.Context, pool uint64) {
	for _, p := range r.pairs(ctx, pool) {
		r.raw(ctx, pool, p[0], p[1]) // sp0: denom0 quote, denom1 base
		r.raw(ctx, pool, p[1], p[0]) // sp1
	}
}

func (r *runner) putRec(rec twaptypes.TwapRecord) {
	r.put(tstr(rec.Time))
	r.puti(rec.Height)
	r.put(rec.P0LastSpotPrice.BigInt().String(), rec.P1LastSpotPrice.BigInt().String(),
		rec.P0ArithmeticTwapAccumulator.BigInt().String(), rec.P1ArithmeticTwapAccumulator.BigInt().String(),
		rec.GeometricTwapAccumulator.BigInt().String(), tstr(rec.LastErrorTime))
}

// most recent record (store representation) of every pair of every pool, in pool creation order
func (r *runner) dumpRecent(ctx sdk.Context) {
	k := r.h.App.TwapKeeper
	for _, id := range r.pools {
		recs, err := k.GetAllMostRecentRecordsForPool(ctx, id)
		if err != nil {
			r.puti(-1)
			continue
		}
		sort.SliceStable(recs, func(i, j int) bool {
			if recs[i].Asset0Denom != recs[j].Asset0Denom {
				return recs[i].Asset0Denom < recs[j].Asset0Denom
			}
			return recs[i].Asset1Denom < recs[j].Asset1Denom
		})
		r.puti(int64(len(recs)))
		for _, rec := range recs {
			r.putRec(rec)
		}
	}
}

// every stored historical record, per pool (creation order), per pair (sorted), by time
func (r *runner) dumpHist(ctx sdk.Context) {
	k := r.h.App.TwapKeeper
	for _, id := range r.pools {
		all, err := k.GetAllHistoricalPoolIndexedTWAPsForPoolId(ctx, id)
		if err != nil {
			r.puti(-1)
			continue
		}
		ps := r.pairs(ctx, id)
		r.puti(int64(len(ps)))
		for _, p := range ps {
			var sel []twaptypes.TwapRecord
			for _, rec := range all {
				// the key prefix of pool 1 also matches pools 10.., so filter on the record's own id
				if rec.PoolId == id && rec.Asset0Denom == p[0] && rec.Asset1Denom == p[1] {
					sel = append(sel, rec)
				}
			}
			sort.SliceStable(sel, func(i, j int) bool { return sel[i].Time.Before(sel[j].Time) })
			r.puti(int64(len(sel)))
			for _, rec := range sel {
				r.putRec(rec)
			}
		}
	}
}

func (r *runner) putPruning(ctx sdk.Context) {
	st := r.h.App.TwapKeeper.GetPruningState(ctx)
	r.puti(b2i(st.IsPruning))
	r.put(tstr(st.LastKeptTime))
	r.puti(int64(st.LastSeenPoolId))
}

// changed pools of this block, read from the module's transient store (keys: little-endian pool id)
func (r *runner) changed(ctx sdk.Context) []uint64 {
	store := ctx.TransientStore(r.h.App.GetTKey(twaptypes.TransientStoreKey))
	it := store.Iterator(nil, nil)
	defer it.Close()
	var ids []uint64
	for ; it.Valid(); it.Next() {
		k := it.Key()
		var id uint64
		for i := 7; i >= 0; i-- {
			id = id<<8 | uint64(k[i])
		}
		ids = append(ids, id)
	}
	sort.Slice(ids, func(i, j int) bool { return ids[i] < ids[j] })
	return ids
}

// what a commit does to a transient store
func (r *runner) clearTransient(ctx sdk.Context) {
	store := ctx.TransientStore(r.h.App.GetTKey(twaptypes.TransientStoreKey))
	it := store.Iterator(nil, nil)
	var keys [][]byte
	for ; it.Valid(); it.Next() {
		keys = append(keys, append([]byte{}, it.Key()...))
	}
	it.Close()
	for _, k := range keys {
		store.Delete(k)
	}
}

const (
	qOK = iota
	qFlag
	qStartAfterEnd
	qEndInFuture
	qTooOld
	qNotInPool
	qSameDenom
	qPanic
	qOther
)

func classify(err error) int64 {
	if err == nil {
		return qOK
	}
	var e1 twaptypes.StartTimeAfterEndTimeError
	var e2 twaptypes.EndTimeInFutureError
	s := err.Error()
	switch {
	case strings.HasPrefix(s, "panic:"):
		return qPanic
	case errors.As(err, &e1):
		return qStartAfterEnd
	case errors.As(err, &e2):
		return qEndInFuture
	case strings.Contains(s, "looking for a time that's too old"):
		return qTooOld
	case strings.Contains(s, "that are not in pool id"):
		return qNotInPool
	case strings.Contains(s, "both assets cannot be of the same denom"):
		return qSameDenom
	case strings.Contains(s, "error in pool spot price occurred between start and end time"):
		return qFlag
	}
	return qOther
}

func (r *runner) query(o op) {
	k := r.h.App.TwapKeeper
	var v osmomath.Dec
	var err error
	func() {
		defer func() {
			if rec := recover(); rec != nil {
				err = fmt.Errorf("panic: %v", rec)
			}
		}()
		ctx, _ := r.h.Ctx.CacheContext()
		switch {
		case o.Kind == 0 && !o.ToNow:
			v, err = k.GetArithmeticTwap(ctx, o.Pool, o.Base, o.Quote, tm(o.Start), tm(o.End))
		case o.Kind == 0 && o.ToNow:
			v, err = k.GetArithmeticTwapToNow(ctx, o.Pool, o.Base, o.Quote, tm(o.Start))
		case o.Kind == 1 && !o.ToNow:
			v, err = k.GetGeometricTwap(ctx, o.Pool, o.Base, o.Quote, tm(o.Start), tm(o.End))
		default:
			v, err = k.GetGeometricTwapToNow(ctx, o.Pool, o.Base, o.Quote, tm(o.Start))
		}
	}()
	c := classify(err)
	r.puti(c)
	if (c == qOK || c == qFlag) && !v.IsNil() {
		r.put(v.BigInt().String())
	} else {
		r.put("0")
	}
}

func run(t *testing.T, c tcase) (o obs) {
	defer func() {
		if rec := recover(); rec != nil {
			o = obs{Err: fmt.Sprintf("driver panic: %v", rec)}
		}
	}()
	h := apph.New(t)
	r := &runner{h: h, posns: map[uint64][]uint64{}}
	if c.PruneLimit > 0 {
		twap.NumRecordsToPrunePerBlock = c.PruneLimit
	} else {
		twap.NumRecordsToPrunePerBlock = defaultPruneLimit
	}
	h.Ctx = h.Ctx.WithBlockTime(tm(c.T0)).WithBlockHeight(h.Ctx.BlockHeight() + 1)
	r.puti(h.Ctx.BlockHeight())
	if c.KeepPeriod > 0 {
		p := h.App.TwapKeeper.GetParams(h.Ctx)
		p.RecordHistoryKeepPeriod = time.Duration(c.KeepPeriod)
		h.App.TwapKeeper.SetParams(h.Ctx, p)
	}
	acc := h.TestAccs[0]
	for _, o := range c.Ops {
		switch o.Op {
		case "bal":
			var assets []balancer.PoolAsset
			for i, d := range o.Denoms {
				assets = append(assets, balancer.PoolAsset{Weight: osmomath.NewInt(o.Weights[i]), Token: sdk.NewCoin(d, mustInt(o.Amts[i]))})
			}
			id := h.PrepareCustomBalancerPool(assets, balancer.PoolParams{SwapFee: osmomath.ZeroDec(), ExitFee: osmomath.ZeroDec()})
			r.pools = append(r.pools, id)
			r.puti(int64(id))
			r.puti(int64(len(r.pairs(h.Ctx, id))))
			r.raws(h.Ctx, id)
		case "cl":
			pool := h.PrepareConcentratedPoolWithCoins(o.Denoms[0], o.Denoms[1])
			id := pool.GetId()
			r.pools = append(r.pools, id)
			r.puti(int64(id))
			r.puti(int64(len(r.pairs(h.Ctx, id))))
			r.raws(h.Ctx, id)
		case "clpos":
			pool, err := h.App.ConcentratedLiquidityKeeper.GetConcentratedPoolById(h.Ctx, o.Pool)
			if err != nil {
				r.puti(0)
				break
			}
			coins := sdk.NewCoins(sdk.NewCoin(pool.GetToken0(), mustInt(o.Amts[0])), sdk.NewCoin(pool.GetToken1(), mustInt(o.Amts[1])))
			h.FundAcc(acc, coins)
			err = apph.Atomic(h.Ctx, func(ctx sdk.Context) error {
				pd, e := h.App.ConcentratedLiquidityKeeper.CreateFullRangePosition(ctx, o.Pool, acc, coins)
				if e == nil {
					r.posns[o.Pool] = append(r.posns[o.Pool], pd.ID)
				}
				return e
			})
			r.puti(b2i(err == nil))
		case "clwd":
			ps := r.posns[o.Pool]
			if o.Pos >= len(ps) {
				r.puti(0)
				break
			}
			pid := ps[o.Pos]
			err := apph.Atomic(h.Ctx, func(ctx sdk.Context) error {
				pos, e := h.App.ConcentratedLiquidityKeeper.GetPosition(ctx, pid)
				if e != nil {
					return e
				}
				_, e = cl.NewMsgServerImpl(h.App.ConcentratedLiquidityKeeper).WithdrawPosition(ctx, &cltypes.MsgWithdrawPosition{
					PositionId: pid, LiquidityAmount: pos.Liquidity, Sender: acc.String()})
				return e
			})
			if err == nil {
				r.posns[o.Pool] = append(append([]uint64{}, ps[:o.Pos]...), ps[o.Pos+1:]...)
			}
			r.puti(b2i(err == nil))
		case "swap":
			coin := sdk.NewCoin(o.In, mustInt(o.Amt))
			h.FundAcc(acc, sdk.NewCoins(coin))
			err := apph.Atomic(h.Ctx, func(ctx sdk.Context) error {
				_, _, e := h.App.PoolManagerKeeper.SwapExactAmountIn(ctx, acc, o.Pool, coin, o.Out, osmomath.OneInt())
				return e
			})
			r.puti(b2i(err == nil))
		case "join":
			err := apph.Atomic(h.Ctx, func(ctx sdk.Context) error {
				denoms, e := h.App.GAMMKeeper.GetPoolDenoms(ctx, o.Pool)
				if e != nil {
					return e
				}
				max := sdk.NewCoins()
				for _, d := range denoms {
					max = max.Add(sdk.NewCoin(d, mustInt("1000000000000000000000000000000")))
				}
				h.FundAcc(acc, max)
				_, _, e = h.App.GAMMKeeper.JoinPoolNoSwap(ctx, acc, o.Pool, mustInt(o.Amt), max)
				return e
			})
			r.puti(b2i(err == nil))
		case "exit":
			err := apph.Atomic(h.Ctx, func(ctx sdk.Context) error {
				_, e := h.App.GAMMKeeper.ExitPool(ctx, acc, o.Pool, mustInt(o.Amt), sdk.NewCoins())
				return e
			})
			r.puti(b2i(err == nil))
		case "end":
			ch := r.changed(h.Ctx)
			r.puti(int64(len(ch)))
			for _, id := range ch {
				r.puti(int64(id))
			}
			for _, id := range r.pools { // raw spot prices of every pool at the end of the block, creation order
				r.raws(h.Ctx, id)
			}
			wasPruning := h.App.TwapKeeper.GetPruningState(h.Ctx).IsPruning
			h.App.TwapKeeper.EndBlock(h.Ctx)
			r.clearTransient(h.Ctx)
			r.dumpRecent(h.Ctx)
			r.putPruning(h.Ctx)
			if wasPruning {
				r.dumpHist(h.Ctx)
			}
			h.Ctx = h.Ctx.WithBlockTime(h.Ctx.BlockTime().Add(time.Duration(o.Dt))).WithBlockHeight(h.Ctx.BlockHeight() + 1)
		case "prune":
			h.App.TwapKeeper.SetPruningState(h.Ctx, twaptypes.PruningState{IsPruning: true, LastKeptTime: tm(o.Keep), LastSeenPoolId: o.Last})
			r.putPruning(h.Ctx)
		case "epoch":
			id := h.App.TwapKeeper.PruneEpochIdentifier(h.Ctx)
			if err := h.App.TwapKeeper.EpochHooks().AfterEpochEnd(h.Ctx, id, 1); err != nil {
				panic(err)
			}
			r.putPruning(h.Ctx)
		case "q":
			r.query(o)
		default:
			panic("unknown op " + o.Op)
		}
	}
	r.puti(-7)
	r.dumpHist(h.Ctx)
	return obs{Flat: r.out}
}

func TestDriver(t *testing.T) {
	apph.Serve(t, run)
}
