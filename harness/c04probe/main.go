// c04probe: targeted search (not part of the check) for a stableswap exact-out swap on a balanced two-asset
// pool at zero spread factor that charges exactly the amount it pays out (the curve requires strictly more),
// i.e. a swap that lowers the invariant x*y*(x^2+y^2).  Usage: c04probe <seed> <tries> [out]
package main

import (
	"fmt"
	"math/big"
	"math/rand"
	"os"
	"strconv"

	sdk "github.com/cosmos/cosmos-sdk/types"

	"github.com/osmosis-labs/osmosis/osmomath"
	"github.com/osmosis-labs/osmosis/v31/x/gamm/pool-models/stableswap"
)

func main() {
	seed, _ := strconv.ParseInt(os.Args[1], 10, 64)
	tries, _ := strconv.Atoi(os.Args[2])
	out := int64(1)
	if len(os.Args) > 3 {
		out, _ = strconv.ParseInt(os.Args[3], 10, 64)
	}
	r := rand.New(rand.NewSource(seed))
	ctx := sdk.Context{}
	found := 0
	for t := 0; t < tries; t++ {
		x := new(big.Int).Rand(r, new(big.Int).Exp(big.NewInt(10), big.NewInt(int64(7+r.Intn(20))), nil))
		x.Add(x, big.NewInt(1000000))
		sf := uint64(2 + r.Int63n(1<<uint(3+r.Intn(28))))
		out = 1 + r.Int63n(3)
		x.Mul(x, big.NewInt(int64(sf)))
		amt := osmomath.NewIntFromBigInt(x)
		coins := sdk.NewCoins(sdk.NewCoin("tok0", amt), sdk.NewCoin("tok1", amt))
		p, err := stableswap.NewStableswapPool(1, stableswap.PoolParams{SwapFee: osmomath.ZeroDec(), ExitFee: osmomath.ZeroDec()}, coins, []uint64{sf, sf}, "", "")
		if err != nil {
			continue
		}
		func() {
			defer func() { recover() }()
			in, err := p.CalcInAmtGivenOut(ctx, sdk.NewCoins(sdk.NewInt64Coin("tok0", out)), "tok1", osmomath.ZeroDec())
			if err == nil && in.Amount.Int64() <= out {
				found++
				fmt.Printf("WITNESS reserves %s/%s sf %d out %d in %s\n", x, x, sf, out, in.Amount)
			}
		}()
	}
	fmt.Printf("done tries=%d found=%d\n", tries, found)
}
