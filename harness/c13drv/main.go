// c13drv runs the real osmomath approximation / rounding / search functions of property C13 on cases
// read from stdin (one JSON case per line: {"op": name, "a": [decimal strings]}) and prints one JSON
// observation per case: {"st": status enum, "v": [decimal strings]}.  All numbers are RAW mantissas
// (Dec: value x 10^18, BigDec: value x 10^36, Int: the integer).  Imports only osmomath (fast build).
package main

import (
	"bufio"
	"encoding/json"
	"errors"
	"fmt"
	"math/big"
	"os"
	"strings"

	"github.com/osmosis-labs/osmosis/osmomath"
)

type tcase struct {
	Op string   `json:"op"`
	A  []string `json:"a"`
}

type obs struct {
	St  int      `json:"st"`
	V   []string `json:"v"`
	Msg string   `json:"msg,omitempty"`
	Mut int      `json:"mut,omitempty"` // SigFigRound: 1 if the caller's argument was mutated through the shared big.Int
}

// status enum (must agree with coq/theories/C13/Common.v err_code and props/c13.py)
const (
	stOK           = 0
	stNegSqrt      = 1
	stNegExponent  = 2
	stExpTooLarge  = 3
	stLogDomain    = 4
	stLogBase      = 5
	stPowBaseLE0   = 6
	stPowBaseGE2   = 7
	stPowIterLimit = 8
	stOverflow     = 9
	stDivZero      = 10
	stNoConverge   = 11
	stFuncError    = 12
	stInt64Range   = 13
	stExpContract  = 14
	stDriver       = 98 // the driver itself failed (bad case): never a legitimate observation
	stOther        = 99 // the call failed loudly with a text this driver does not know: a generic failure
)

// classify maps the text of a panic / error to a fine failure kind.  The kind is a diagnostic: a failure whose text is not
// recognised is reported as the generic stOther, which the comparison with the model and the oracle accept for any predicted
// failure kind (the property only requires that such calls fail loudly, not what the message says).
func classify(msg string) int {
	switch {
	case strings.Contains(msg, "c13drv: bad") || strings.Contains(msg, "c13drv: unknown"):
		return stDriver
	case strings.Contains(msg, "cannot take square root of negative number"):
		return stNegSqrt
	case strings.Contains(msg, "negative exponent"):
		return stNegExponent
	case strings.Contains(msg, "is too large, max"):
		return stExpTooLarge
	case strings.Contains(msg, "log is not defined at <= 0"):
		return stLogDomain
	case strings.Contains(msg, "log is not defined at base"):
		return stLogBase
	case strings.Contains(msg, "base must be greater than 0"):
		return stPowBaseLE0
	case strings.Contains(msg, "base must be lesser than two"):
		return stPowBaseGE2
	case strings.Contains(msg, "failed to reach precision within"):
		return stPowIterLimit
	case strings.Contains(msg, "Int overflow"), strings.Contains(msg, "integer overflow"),
		strings.Contains(msg, "NewIntFromBigInt() out of bound"), strings.Contains(msg, "out of bounds"):
		return stOverflow
	case strings.Contains(msg, "division by zero"), strings.Contains(msg, "Division by zero"):
		return stDivZero
	case strings.Contains(msg, "hit maximum iterations"):
		return stNoConverge
	case strings.Contains(msg, "c13drv: f failed"):
		return stFuncError
	case strings.Contains(msg, "Int64() out of bound"):
		return stInt64Range
	case strings.Contains(msg, "exponent must be in the range [0, 1]"):
		return stExpContract
	}
	return stOther
}

func bi(s string) *big.Int {
	v, ok := new(big.Int).SetString(s, 10)
	if !ok {
		panic("c13drv: bad integer " + s)
	}
	return v
}

func dec(s string) osmomath.Dec     { return osmomath.NewDecFromBigIntWithPrec(bi(s), 18) }
func bdec(s string) osmomath.BigDec { return osmomath.NewBigDecFromBigIntWithPrec(bi(s), 36) }
func sint(s string) osmomath.Int    { return osmomath.NewIntFromBigInt(bi(s)) }
func rawD(d osmomath.Dec) string    { return d.BigInt().String() }
func rawB(d osmomath.BigDec) string { return d.BigInt().String() }
func rawI(i osmomath.Int) string    { return i.BigInt().String() }
func i64(s string) int64            { return bi(s).Int64() }
func okv(vs ...string) obs          { return obs{St: stOK, V: vs} }
func errObs(err error) obs          { return obs{St: classify(err.Error()), Msg: err.Error()} }
func tolDec(has, s string) osmomath.Dec {
	if has == "0" {
		return osmomath.Dec{}
	}
	return dec(s)
}

func tolerance(a []string) osmomath.ErrTolerance {
	// a = hasAdd, add, hasMul, mul, dir
	return osmomath.ErrTolerance{
		AdditiveTolerance:       tolDec(a[0], a[1]),
		MultiplicativeTolerance: tolDec(a[2], a[3]),
		RoundingDir:             osmomath.RoundingDirection(i64(a[4])),
	}
}

// the searched functions: kind 0 linear p1*x+p2, 1 cubic p1*x^3+p2, 2 step (p2 if x < p1 else p3),
// 3 linear that fails (error / panic) for x > p3.  On big.Int for Int; for BigDec the same on the value with
// BigDec.Mul (rounded) so that the model can mirror it exactly.
func intFunc(kind int64, p1, p2, p3 *big.Int) func(osmomath.Int) (osmomath.Int, error) {
	return func(x osmomath.Int) (osmomath.Int, error) {
		xb := x.BigInt()
		r := new(big.Int)
		switch kind {
		case 0:
			r.Mul(p1, xb).Add(r, p2)
		case 1:
			r.Mul(xb, xb).Mul(r, xb).Mul(r, p1).Add(r, p2)
		case 2:
			if xb.Cmp(p1) < 0 {
				r.Set(p2)
			} else {
				r.Set(p3)
			}
		case 3:
			if xb.Cmp(p3) > 0 {
				return osmomath.Int{}, errors.New("c13drv: f failed")
			}
			r.Mul(p1, xb).Add(r, p2)
		}
		return osmomath.NewIntFromBigInt(r), nil
	}
}

func bdFunc(kind int64, p1, p2, p3 osmomath.BigDec) func(osmomath.BigDec) osmomath.BigDec {
	return func(x osmomath.BigDec) osmomath.BigDec {
		switch kind {
		case 0:
			return p1.Mul(x).Add(p2)
		case 1:
			return x.Mul(x).Mul(x).Mul(p1).Add(p2)
		case 2:
			if x.LT(p1) {
				return p2.Clone()
			}
			return p3.Clone()
		}
		panic("c13drv: bad kind")
	}
}

func run(c tcase) (o obs) {
	defer func() {
		if r := recover(); r != nil {
			msg := fmt.Sprint(r)
			o = obs{St: classify(msg), Msg: msg}
		}
	}()
	a := c.A
	switch c.Op {
	case "sqrt":
		r, err := osmomath.MonotonicSqrt(dec(a[0]))
		if err != nil {
			return errObs(err)
		}
		return okv(rawD(r))
	case "sqrt_bd":
		r, err := osmomath.MonotonicSqrtBigDec(bdec(a[0]))
		if err != nil {
			return errObs(err)
		}
		return okv(rawB(r))
	case "sigfig":
		d := dec(a[0])
		before := rawD(d)
		r := osmomath.SigFigRound(d, sint(a[1]))
		res := okv(rawD(r))
		if rawD(d) != before {
			res.Mut = 1
		}
		return res
	case "cmp_int":
		return okv(fmt.Sprint(tolerance(a[2:]).Compare(sint(a[0]), sint(a[1]))))
	case "cmp_bd":
		return okv(fmt.Sprint(tolerance(a[2:]).CompareBigDec(bdec(a[0]), bdec(a[1]))))
	case "cmp_dec":
		return okv(fmt.Sprint(tolerance(a[2:]).CompareDec(dec(a[0]), dec(a[1]))))
	case "bsearch":
		// kind p1 p2 p3 lo hi target hasAdd add hasMul mul dir maxIter
		f := intFunc(i64(a[0]), bi(a[1]), bi(a[2]), bi(a[3]))
		r, err := osmomath.BinarySearch(f, sint(a[4]), sint(a[5]), sint(a[6]), tolerance(a[7:12]), int(i64(a[12])))
		if err != nil {
			return errObs(err)
		}
		return okv(rawI(r))
	case "bsearch_bd":
		f := bdFunc(i64(a[0]), bdec(a[1]), bdec(a[2]), bdec(a[3]))
		r, err := osmomath.BinarySearchBigDec(f, bdec(a[4]), bdec(a[5]), bdec(a[6]), tolerance(a[7:12]), int(i64(a[12])))
		if err != nil {
			return errObs(err)
		}
		return okv(rawB(r))
	case "exp2":
		return okv(rawB(osmomath.Exp2(bdec(a[0]))))
	case "log2":
		return okv(rawB(bdec(a[0]).LogBase2()))
	case "ln":
		return okv(rawB(bdec(a[0]).Ln()))
	case "ticklog":
		return okv(rawB(bdec(a[0]).TickLog()))
	case "customlog":
		return okv(rawB(bdec(a[0]).CustomBaseLog(bdec(a[1]))))
	case "pow":
		return okv(rawD(osmomath.Pow(dec(a[0]), dec(a[1]))))
	case "powapprox":
		return okv(rawD(osmomath.PowApprox(dec(a[0]), dec(a[1]), dec(a[2]))))
	case "bd_power":
		return okv(rawB(bdec(a[0]).PowerInteger(bi(a[1]).Uint64())))
	}
	return obs{St: stDriver, Msg: "c13drv: unknown op " + c.Op}
}

func main() {
	in := bufio.NewReaderSize(os.Stdin, 1<<20)
	out := bufio.NewWriterSize(os.Stdout, 1<<20)
	defer out.Flush()
	dc := json.NewDecoder(in)
	enc := json.NewEncoder(out)
	for {
		var c tcase
		if err := dc.Decode(&c); err != nil {
			break
		}
		o := run(c)
		if o.V == nil {
			o.V = []string{}
		}
		if err := enc.Encode(o); err != nil {
			panic(err)
		}
	}
}
