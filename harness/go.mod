module verifharness

go 1.23.4
