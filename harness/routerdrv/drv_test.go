// Package routerdrv drives the real swap router (x/poolmanager) and the classic-pool keeper (x/gamm) of /repo for
// properties C05 and C02 (full app through verifharness/apph).
//
// C05 (TestDriver): one fresh chain per case; several balancer / stableswap / concentrated pools, prior activity,
// taker-fee settings; then, all from the same state S:
//
//	est   the estimate query (poolmanager client Querier) called directly on S, with a digest of the bank / gamm /
//	      concentrated-liquidity / poolmanager stores before and after ("pure" flag)
//	exec  the routed message through the poolmanager MsgServer (ValidateBasic, then the handler under apph.Atomic)
//	      on a discarded cache context
//	comp  the same trade as a sequence of single-hop messages on another discarded cache context
//	      (exact-out: single-hop estimates backwards first, then single-hop exact-out messages forwards)
//	split routes: the split message, and its legs as separate messages
//
// The MsgServer / Querier used are built on a second poolmanager.Keeper (poolmanager.NewKeeper over the same stores)
// whose pool modules are recording proxies around the real gamm / concentrated-liquidity keepers: every call the router
// makes through types.PoolModuleI (SwapExactAmountIn/Out, CalcOutAmtGivenIn, CalcInAmtGivenOut) is logged with its
// arguments and result, and every swap is first replayed on a throw-away branch with a rich sender and no limit
// ("probe") so that the pool's own answer is known even when the real call fails on a limit or on funds.  The log is
// what the table-driven pool of C05/Corr.v replays.
package routerdrv

import (
	"crypto/sha256"
	"encoding/hex"
	"errors"
	"fmt"
	"math/big"
	"strings"
	"testing"

	sdk "github.com/cosmos/cosmos-sdk/types"
	sdkerrors "github.com/cosmos/cosmos-sdk/types/errors"
	banktypes "github.com/cosmos/cosmos-sdk/x/bank/types"
	distrtypes "github.com/cosmos/cosmos-sdk/x/distribution/types"
	minttypes "github.com/cosmos/cosmos-sdk/x/mint/types"

	"github.com/osmosis-labs/osmosis/osmomath"
	clmodel "github.com/osmosis-labs/osmosis/v31/x/concentrated-liquidity/model"
	cltypes "github.com/osmosis-labs/osmosis/v31/x/concentrated-liquidity/types"
	"github.com/osmosis-labs/osmosis/v31/x/gamm/pool-models/balancer"
	"github.com/osmosis-labs/osmosis/v31/x/gamm/pool-models/stableswap"
	gammtypes "github.com/osmosis-labs/osmosis/v31/x/gamm/types"
	"github.com/osmosis-labs/osmosis/v31/x/poolmanager"
	pmclient "github.com/osmosis-labs/osmosis/v31/x/poolmanager/client"
	"github.com/osmosis-labs/osmosis/v31/x/poolmanager/client/queryproto"
	pmtypes "github.com/osmosis-labs/osmosis/v31/x/poolmanager/types"
	txfeestypes "github.com/osmosis-labs/osmosis/v31/x/txfees/types"

	"verifharness/apph"
)

// ---------------------------------------------------------------------------------------------
// case format
// ---------------------------------------------------------------------------------------------

type posIn struct {
	Rel bool   `json:"rel"` // Lo / Hi are offsets from the pool's current tick (rounded to the tick spacing)
	Lo  int64  `json:"lo"`
	Hi  int64  `json:"hi"`
	A0  string `json:"a0"`
	A1  string `json:"a1"`
}

type poolIn struct {
	T      string   `json:"t"`      // bal | ss | cl
	D      []int    `json:"d"`      // denom indices (cl: token0, token1)
	Amt    []string `json:"amt"`    // initial liquidity (cl: full-range position amounts)
	W      []int64  `json:"w"`      // balancer weights
	SF     []uint64 `json:"sf"`     // stableswap scaling factors
	Spread string   `json:"spread"` // decimal string
	TS     uint64   `json:"ts"`     // cl tick spacing
	Pos    []posIn  `json:"pos"`    // cl: extra positions
}

type priorIn struct {
	K   string `json:"k"` // "" / swap: exact-in swap; join / exit: all-asset join / exit of Num/Den of the pool's shares (gamm pools);
	P   int    `json:"p"` // pos: an extra position on a concentrated pool (Lo, Hi, Amt = amount of both tokens)
	In  int    `json:"in"`
	Out int    `json:"out"`
	Amt string `json:"amt"`
	Num int64  `json:"num"`
	Den int64  `json:"den"`
	Lo  int64  `json:"lo"`
	Hi  int64  `json:"hi"`
}

type hopIn struct {
	P int `json:"p"` // pool index (0-based; 99 = a pool id that does not exist)
	D int `json:"d"` // denom index: token out (exact-in routes) / token in (exact-out routes)
}

type legIn struct {
	Route []hopIn `json:"route"`
	Amt   string  `json:"amt"`
}

type runIn struct {
	K      string  `json:"k"` // in | out | split_in | split_out
	Route  []hopIn `json:"route"`
	Legs   []legIn `json:"legs"`
	D      int     `json:"d"`   // in / split_in: token in denom; out / split_out: token out denom
	Amt    string  `json:"amt"` // in: token in amount; out: token out amount
	Lim    string  `json:"lim"` // min out / max in; when empty: estimate * LimNum / LimDen + LimAdd (1 / 2^200 if the estimate fails)
	LimNum int64   `json:"lim_num"`
	LimDen int64   `json:"lim_den"`
	LimAdd int64   `json:"lim_add"`
}

type caseIn struct {
	Denoms     []string    `json:"denoms"`
	Pools      []poolIn    `json:"pools"`
	Prior      []priorIn   `json:"prior"`
	FeeDefault string      `json:"fee_default"`
	FeePairs   [][3]string `json:"fee_pairs"` // denom idx in, denom idx out, fee
	WL         bool        `json:"wl"`
	Skim       [][2]string `json:"skim"`  // taker-fee share agreements: denom idx, skim percent
	Funds      []string    `json:"funds"` // trader balance per denom
	Run        runIn       `json:"run"`
}

// ---------------------------------------------------------------------------------------------
// observation format
// ---------------------------------------------------------------------------------------------

// one call through the pool-module interface
type rec struct {
	Op     string `json:"op"` // si | so | co | ci
	Pool   int    `json:"pool"`
	X      int    `json:"x"`   // si/co: denom in;  so/ci: denom out
	Amt    string `json:"amt"` // si/co: amount in; so/ci: amount out
	Y      int    `json:"y"`   // si/co: denom out; so/ci: denom in
	Lim    string `json:"lim,omitempty"`
	Spread string `json:"spread"` // raw 18-decimal mantissa
	Err    int    `json:"err"`    // result of the real call: 0 ok, 1 limit, 2 other
	R1     string `json:"r1"`     // si: token in taken, so: token in; co/ci: the calculated amount
	R2     string `json:"r2"`     // si: token out, so: token out given
	PErr   int    `json:"perr"`   // probe (swaps only): 0 ok, else error
	P1     string `json:"p1"`
	P2     string `json:"p2"`
	Cross  int    `json:"cross"` // concentrated pools: initialised ticks between the tick before and after the real swap
}

// one message / query of a sub-run, as executed (concrete amounts)
type opOut struct {
	K     string  `json:"k"` // in | out | split_in | split_out | est_in | est_out
	Route []hopIn `json:"route,omitempty"`
	Legs  []legIn `json:"legs,omitempty"`
	D     int     `json:"d"`
	Amt   string  `json:"amt"`
	Lim   string  `json:"lim"`
	Err   int     `json:"err"`
	Res   string  `json:"res"`
	Etxt  string  `json:"etxt,omitempty"`
	Pure  int     `json:"pure"` // estimates: 1 = store digest unchanged
}

type subrun struct {
	Name string     `json:"name"`
	Ops  []opOut    `json:"ops"`
	Log  []rec      `json:"log"`
	Bal0 [][]string `json:"bal0"` // accounts x denoms before: trader, pool 0..n-1, collector, community
	Bal1 [][]string `json:"bal1"` // after
}

type obsOut struct {
	Fatal   string   `json:"fatal,omitempty"`
	PoolIds []uint64 `json:"pool_ids"`
	Spreads []string `json:"spreads"` // raw mantissa per pool
	Fees    []string `json:"fees"`    // GetTradingPairTakerFee for every ordered denom pair (row-major), raw mantissa
	Skims   []string `json:"skims"`   // per denom: skim percent of its taker-fee share agreement (raw mantissa), -1 = none
	Runs    []subrun `json:"runs"`
}

// ---------------------------------------------------------------------------------------------

func bi(s string) osmomath.Int {
	if s == "" {
		return osmomath.ZeroInt()
	}
	v, ok := new(big.Int).SetString(s, 10)
	if !ok {
		panic("bad integer " + s)
	}
	return osmomath.NewIntFromBigInt(v)
}

func rawDec(d osmomath.Dec) string {
	if d.IsNil() {
		return "0"
	}
	return d.BigInt().String()
}

func errk(err error) int {
	if err == nil {
		return 0
	}
	var e1 cltypes.AmountLessThanMinError
	var e2 cltypes.AmountGreaterThanMaxError
	var e3 pmtypes.PriceImpactProtectionExactInError
	var e4 pmtypes.PriceImpactProtectionExactOutError
	if errors.Is(err, gammtypes.ErrLimitMinAmount) || errors.Is(err, gammtypes.ErrLimitMaxAmount) ||
		errors.As(err, &e1) || errors.As(err, &e2) || errors.As(err, &e3) || errors.As(err, &e4) {
		return 1
	}
	return 2
}

func isFunds(err error) bool {
	var e1 cltypes.InsufficientUserBalanceError
	return errors.Is(err, sdkerrors.ErrInsufficientFunds) || errors.As(err, &e1)
}

func etxt(err error) string {
	if err == nil {
		return ""
	}
	s := err.Error()
	if len(s) > 90 {
		s = s[:90]
	}
	return s
}

type world struct {
	h       *apph.Helper
	denoms  []string
	poolIds []uint64
	ptype   []string
	lp      sdk.AccAddress
	trader  sdk.AccAddress
	rich    sdk.AccAddress
	rk      *poolmanager.Keeper
	ms      pmtypes.MsgServer
	gms     gammtypes.MsgServer // legacy gamm swap messages (C02 only)
	q       pmclient.Querier
	log     *[]rec
}

func (w *world) didx(d string) int {
	for i, x := range w.denoms {
		if x == d {
			return i
		}
	}
	return -1
}

func (w *world) pidx(id uint64) int {
	for i, x := range w.poolIds {
		if x == id {
			return i
		}
	}
	return -1
}

func (w *world) poolId(i int) uint64 {
	if i >= 0 && i < len(w.poolIds) {
		return w.poolIds[i]
	}
	return 4000 + uint64(i)
}

func (w *world) fund(ctx sdk.Context, a sdk.AccAddress, coins sdk.Coins) {
	if err := w.h.App.BankKeeper.MintCoins(ctx, minttypes.ModuleName, coins); err != nil {
		panic(err)
	}
	if err := w.h.App.BankKeeper.SendCoinsFromModuleToAccount(ctx, minttypes.ModuleName, a, coins); err != nil {
		panic(err)
	}
}

func (w *world) clTick(ctx sdk.Context, id uint64) (int64, bool) {
	p, err := w.h.App.ConcentratedLiquidityKeeper.GetConcentratedPoolById(ctx, id)
	if err != nil {
		return 0, false
	}
	return p.GetCurrentTick(), true
}

// number of initialised ticks strictly between the current tick before and after a swap (a statistic for the evidence)
func (w *world) crossed(ctx sdk.Context, id uint64, t0 int64) int {
	t1, ok := w.clTick(ctx, id)
	if !ok {
		return 0
	}
	if t1 < t0 {
		t0, t1 = t1, t0
	}
	ticks, err := w.h.App.ConcentratedLiquidityKeeper.GetAllInitializedTicksForPool(ctx, id)
	if err != nil {
		return 0
	}
	n := 0
	for _, t := range ticks {
		if t.TickIndex > t0 && t.TickIndex <= t1 {
			n++
		}
	}
	return n
}

// ---- recording proxy around a pool module ----

type proxy struct {
	pmtypes.PoolModuleI
	w *world
}

type clproxy struct {
	proxy
	c pmtypes.ConcentratedI
}

func (p clproxy) GetWhitelistedAddresses(ctx sdk.Context) []string {
	return p.c.GetWhitelistedAddresses(ctx)
}

func (p proxy) richFunds() sdk.Coins {
	cs := sdk.Coins{}
	big := osmomath.NewIntFromBigInt(new(big.Int).Lsh(big.NewInt(1), 250)) // above anything a pool can ask for that still fits an Int
	for _, d := range p.w.denoms {
		cs = cs.Add(sdk.NewCoin(d, big))
	}
	return cs
}

func (p proxy) SwapExactAmountIn(ctx sdk.Context, sender sdk.AccAddress, pool pmtypes.PoolI, tokenIn sdk.Coin, tokenOutDenom string, minOut osmomath.Int, spread osmomath.Dec) (osmomath.Int, error) {
	w := p.w
	r := rec{Op: "si", Pool: w.pidx(pool.GetId()), X: w.didx(tokenIn.Denom), Amt: tokenIn.Amount.String(), Y: w.didx(tokenOutDenom), Lim: minOut.String(), Spread: rawDec(spread)}
	bk := w.h.App.BankKeeper
	// probe: rich sender, no limit, on a branch that is never written
	func() {
		defer func() {
			if x := recover(); x != nil {
				r.PErr = 2
			}
		}()
		pctx, _ := ctx.CacheContext()
		w.fund(pctx, w.rich, p.richFunds())
		pp, err := p.PoolModuleI.GetPool(pctx, pool.GetId())
		if err != nil {
			r.PErr = 2
			return
		}
		b0 := bk.GetBalance(pctx, w.rich, tokenIn.Denom).Amount
		out, err := p.PoolModuleI.SwapExactAmountIn(pctx, w.rich, pp, tokenIn, tokenOutDenom, osmomath.ZeroInt(), spread)
		if err != nil {
			r.PErr = 2
			if isFunds(err) { // even the rich account cannot pay: take the pool's own quote
				if q, e := p.PoolModuleI.CalcOutAmtGivenIn(pctx, pp, tokenIn, tokenOutDenom, spread); e == nil {
					r.PErr, r.P1, r.P2 = 0, tokenIn.Amount.String(), q.Amount.String()
				}
			}
			return
		}
		r.P1 = b0.Sub(bk.GetBalance(pctx, w.rich, tokenIn.Denom).Amount).String()
		r.P2 = out.String()
	}()
	b0 := bk.GetBalance(ctx, sender, tokenIn.Denom).Amount
	t0, isCL := w.clTick(ctx, pool.GetId())
	out, err := p.PoolModuleI.SwapExactAmountIn(ctx, sender, pool, tokenIn, tokenOutDenom, minOut, spread)
	r.Err = errk(err)
	if err == nil && isCL {
		r.Cross = w.crossed(ctx, pool.GetId(), t0)
	}
	if err == nil {
		r.R1 = b0.Sub(bk.GetBalance(ctx, sender, tokenIn.Denom).Amount).String()
		r.R2 = out.String()
	}
	*w.log = append(*w.log, r)
	return out, err
}

func (p proxy) SwapExactAmountOut(ctx sdk.Context, sender sdk.AccAddress, pool pmtypes.PoolI, tokenInDenom string, maxIn osmomath.Int, tokenOut sdk.Coin, spread osmomath.Dec) (osmomath.Int, error) {
	w := p.w
	r := rec{Op: "so", Pool: w.pidx(pool.GetId()), X: w.didx(tokenOut.Denom), Amt: tokenOut.Amount.String(), Y: w.didx(tokenInDenom), Lim: maxIn.String(), Spread: rawDec(spread)}
	bk := w.h.App.BankKeeper
	func() {
		defer func() {
			if x := recover(); x != nil {
				r.PErr = 2
			}
		}()
		pctx, _ := ctx.CacheContext()
		w.fund(pctx, w.rich, p.richFunds())
		pp, err := p.PoolModuleI.GetPool(pctx, pool.GetId())
		if err != nil {
			r.PErr = 2
			return
		}
		b0 := bk.GetBalance(pctx, w.rich, tokenOut.Denom).Amount
		lim := osmomath.NewIntFromBigInt(new(big.Int).Lsh(big.NewInt(1), 255))
		in, err := p.PoolModuleI.SwapExactAmountOut(pctx, w.rich, pp, tokenInDenom, lim, tokenOut, spread)
		if err != nil {
			r.PErr = 2
			if isFunds(err) || errk(err) == 1 { // the rich account cannot pay / the answer exceeds 2^255: take the pool's own quote
				if q, e := p.PoolModuleI.CalcInAmtGivenOut(pctx, pp, tokenOut, tokenInDenom, spread); e == nil {
					r.PErr, r.P1, r.P2 = 0, q.Amount.String(), tokenOut.Amount.String()
				}
			}
			return
		}
		r.P1 = in.String()
		r.P2 = bk.GetBalance(pctx, w.rich, tokenOut.Denom).Amount.Sub(b0).String()
	}()
	b0 := bk.GetBalance(ctx, sender, tokenOut.Denom).Amount
	t0, isCL := w.clTick(ctx, pool.GetId())
	in, err := p.PoolModuleI.SwapExactAmountOut(ctx, sender, pool, tokenInDenom, maxIn, tokenOut, spread)
	r.Err = errk(err)
	if err == nil && isCL {
		r.Cross = w.crossed(ctx, pool.GetId(), t0)
	}
	if err == nil {
		r.R1 = in.String()
		r.R2 = bk.GetBalance(ctx, sender, tokenOut.Denom).Amount.Sub(b0).String()
	}
	*w.log = append(*w.log, r)
	return in, err
}

func (p proxy) CalcOutAmtGivenIn(ctx sdk.Context, pool pmtypes.PoolI, tokenIn sdk.Coin, tokenOutDenom string, spread osmomath.Dec) (sdk.Coin, error) {
	w := p.w
	r := rec{Op: "co", Pool: w.pidx(pool.GetId()), X: w.didx(tokenIn.Denom), Amt: tokenIn.Amount.String(), Y: w.didx(tokenOutDenom), Spread: rawDec(spread)}
	logged := false
	defer func() { // a panic inside the pool is recovered by the estimate function: log it as an error
		if !logged {
			r.Err = 2
			*w.log = append(*w.log, r)
		}
	}()
	out, err := p.PoolModuleI.CalcOutAmtGivenIn(ctx, pool, tokenIn, tokenOutDenom, spread)
	r.Err = errk(err)
	if err == nil {
		r.R1 = out.Amount.String()
	}
	*w.log = append(*w.log, r)
	logged = true
	return out, err
}

func (p proxy) CalcInAmtGivenOut(ctx sdk.Context, pool pmtypes.PoolI, tokenOut sdk.Coin, tokenInDenom string, spread osmomath.Dec) (sdk.Coin, error) {
	w := p.w
	r := rec{Op: "ci", Pool: w.pidx(pool.GetId()), X: w.didx(tokenOut.Denom), Amt: tokenOut.Amount.String(), Y: w.didx(tokenInDenom), Spread: rawDec(spread)}
	logged := false
	defer func() {
		if !logged {
			r.Err = 2
			*w.log = append(*w.log, r)
		}
	}()
	in, err := p.PoolModuleI.CalcInAmtGivenOut(ctx, pool, tokenOut, tokenInDenom, spread)
	r.Err = errk(err)
	if err == nil {
		r.R1 = in.Amount.String()
	}
	*w.log = append(*w.log, r)
	logged = true
	return in, err
}

// ---- setup ----

func setup(t *testing.T, c caseIn) (w *world, fatal string) {
	defer func() {
		if x := recover(); x != nil {
			fatal = fmt.Sprintf("setup panic: %v", x)
		}
	}()
	h := apph.New(t)
	w = &world{h: h, denoms: c.Denoms}
	w.lp, w.trader, w.rich = h.TestAccs[0], h.TestAccs[1], h.TestAccs[2]
	ctx := h.Ctx
	app := h.App
	huge := osmomath.NewIntFromBigInt(new(big.Int).Lsh(big.NewInt(1), 100))
	lpFunds := sdk.Coins{}
	for _, d := range c.Denoms {
		lpFunds = lpFunds.Add(sdk.NewCoin(d, huge))
	}
	w.fund(ctx, w.lp, lpFunds)
	for _, p := range c.Pools {
		spread := osmomath.MustNewDecFromStr(p.Spread)
		var id uint64
		var err error
		switch p.T {
		case "bal":
			var assets []balancer.PoolAsset
			for i, d := range p.D {
				assets = append(assets, balancer.PoolAsset{Weight: osmomath.NewInt(p.W[i]), Token: sdk.NewCoin(c.Denoms[d], bi(p.Amt[i]))})
			}
			msg := balancer.NewMsgCreateBalancerPool(w.lp, balancer.PoolParams{SwapFee: spread, ExitFee: osmomath.ZeroDec()}, assets, "")
			id, err = app.PoolManagerKeeper.CreatePool(ctx, msg)
		case "ss":
			coins := sdk.Coins{}
			for i, d := range p.D {
				coins = coins.Add(sdk.NewCoin(c.Denoms[d], bi(p.Amt[i])))
			}
			// scaling factors are given in the order of p.D; the message wants them in sorted-coin order
			sf := make([]uint64, len(coins))
			for i, d := range p.D {
				for j, cn := range coins {
					if cn.Denom == c.Denoms[d] {
						sf[j] = p.SF[i]
					}
				}
			}
			msg := stableswap.NewMsgCreateStableswapPool(w.lp, stableswap.PoolParams{SwapFee: spread, ExitFee: osmomath.ZeroDec()}, coins, sf, "")
			id, err = app.PoolManagerKeeper.CreatePool(ctx, msg)
		case "cl":
			id, err = app.PoolManagerKeeper.CreatePool(ctx, clmodel.NewMsgCreateConcentratedPool(w.lp, c.Denoms[p.D[0]], c.Denoms[p.D[1]], p.TS, spread))
			if err == nil {
				coins := sdk.NewCoins(sdk.NewCoin(c.Denoms[p.D[0]], bi(p.Amt[0])), sdk.NewCoin(c.Denoms[p.D[1]], bi(p.Amt[1])))
				_, err = app.ConcentratedLiquidityKeeper.CreateFullRangePosition(ctx, id, w.lp, coins)
			}
			if err == nil {
				for _, ps := range p.Pos {
					coins := sdk.NewCoins(sdk.NewCoin(c.Denoms[p.D[0]], bi(ps.A0)), sdk.NewCoin(c.Denoms[p.D[1]], bi(ps.A1)))
					lo, hi := ps.Lo, ps.Hi
					if ps.Rel {
						cp, e := app.ConcentratedLiquidityKeeper.GetConcentratedPoolById(ctx, id)
						if e != nil {
							panic(e)
						}
						ts := int64(p.TS)
						fl := func(x int64) int64 { // round down to a multiple of the tick spacing
							q := x / ts
							if x%ts != 0 && x < 0 {
								q--
							}
							return q * ts
						}
						lo, hi = fl(cp.GetCurrentTick()+ps.Lo), fl(cp.GetCurrentTick()+ps.Hi)+ts
					}
					// a position that cannot be created (e.g. one-sided range needing the other token) is skipped
					_ = apph.Atomic(ctx, func(cc sdk.Context) error {
						_, e := app.ConcentratedLiquidityKeeper.CreatePosition(cc, id, w.lp, coins, osmomath.ZeroInt(), osmomath.ZeroInt(), lo, hi)
						return e
					})
				}
			}
		default:
			panic("pool type " + p.T)
		}
		if err != nil {
			panic(fmt.Sprintf("create %s pool: %v", p.T, err))
		}
		w.poolIds = append(w.poolIds, id)
		w.ptype = append(w.ptype, p.T)
	}
	// prior activity through the app's own router (zero taker fee at this point is not needed: the lp pays whatever is set)
	pms := poolmanager.NewMsgServerImpl(app.PoolManagerKeeper)
	for _, pr := range c.Prior {
		if pr.K == "join" || pr.K == "exit" {
			id := w.poolId(pr.P)
			_ = apph.Atomic(ctx, func(cc sdk.Context) error {
				p, e := app.GAMMKeeper.GetPoolAndPoke(cc, id)
				if e != nil {
					return e
				}
				sh := p.GetTotalShares().MulRaw(pr.Num).QuoRaw(pr.Den)
				if pr.K == "join" {
					_, _, e = app.GAMMKeeper.JoinPoolNoSwap(cc, w.lp, id, sh, sdk.Coins{})
				} else {
					_, e = app.GAMMKeeper.ExitPool(cc, w.lp, id, sh, sdk.Coins{})
				}
				return e
			})
			continue
		}
		if pr.K == "pos" {
			id := w.poolId(pr.P)
			_ = apph.Atomic(ctx, func(cc sdk.Context) error {
				p, e := app.ConcentratedLiquidityKeeper.GetConcentratedPoolById(cc, id)
				if e != nil {
					return e
				}
				coins := sdk.NewCoins(sdk.NewCoin(p.GetToken0(), bi(pr.Amt)), sdk.NewCoin(p.GetToken1(), bi(pr.Amt)))
				ts := int64(p.GetTickSpacing())
				fl := func(x int64) int64 {
					q := x / ts
					if x%ts != 0 && x < 0 {
						q--
					}
					return q * ts
				}
				// Lo / Hi are offsets from the current tick
				_, e = app.ConcentratedLiquidityKeeper.CreatePosition(cc, id, w.lp, coins, osmomath.ZeroInt(), osmomath.ZeroInt(), fl(p.GetCurrentTick()+pr.Lo), fl(p.GetCurrentTick()+pr.Hi)+ts)
				return e
			})
			continue
		}
		msg := &pmtypes.MsgSwapExactAmountIn{Sender: w.lp.String(), Routes: []pmtypes.SwapAmountInRoute{{PoolId: w.poolId(pr.P), TokenOutDenom: c.Denoms[pr.Out]}},
			TokenIn: sdk.NewCoin(c.Denoms[pr.In], bi(pr.Amt)), TokenOutMinAmount: osmomath.OneInt()}
		_ = apph.Atomic(ctx, func(cc sdk.Context) error {
			_, e := pms.SwapExactAmountIn(cc, msg)
			return e
		})
	}
	// taker fees
	if c.FeeDefault != "" {
		app.PoolManagerKeeper.SetParam(ctx, pmtypes.KeyDefaultTakerFee, osmomath.MustNewDecFromStr(c.FeeDefault))
	}
	for _, fp := range c.FeePairs {
		var a, b int
		fmt.Sscan(fp[0], &a)
		fmt.Sscan(fp[1], &b)
		app.PoolManagerKeeper.SetDenomPairTakerFee(ctx, c.Denoms[a], c.Denoms[b], osmomath.MustNewDecFromStr(fp[2]))
	}
	if c.WL {
		app.PoolManagerKeeper.SetParam(ctx, pmtypes.KeyReducedTakerFeeByWhitelist, []string{w.trader.String()})
	}
	tf := sdk.Coins{}
	for i, f := range c.Funds {
		if a := bi(f); a.IsPositive() {
			tf = tf.Add(sdk.NewCoin(c.Denoms[i], a))
		}
	}
	if !tf.IsZero() {
		w.fund(ctx, w.trader, tf)
	}
	// the recording router
	lg := []rec{}
	w.log = &lg
	gp := proxy{PoolModuleI: app.GAMMKeeper, w: w}
	cp := clproxy{proxy: proxy{PoolModuleI: app.ConcentratedLiquidityKeeper, w: w}, c: app.ConcentratedLiquidityKeeper}
	w.rk = poolmanager.NewKeeper(app.GetKey(pmtypes.StoreKey), app.GetSubspace(pmtypes.ModuleName), gp, cp, app.CosmwasmPoolKeeper,
		app.BankKeeper, app.AccountKeeper, app.DistrKeeper, app.StakingKeeper, app.ProtoRevKeeper, app.WasmKeeper)
	w.ms = poolmanager.NewMsgServerImpl(w.rk)
	w.q = pmclient.NewQuerier(w.rk)
	w.setSkims(ctx, c.Skim)
	return w, ""
}

// taker-fee share agreements are cached inside the keeper that sets them: set them on the recording keeper
func (w *world) setSkims(ctx sdk.Context, sk [][2]string) {
	for _, e := range sk {
		var d int
		fmt.Sscan(e[0], &d)
		err := w.rk.SetTakerFeeShareAgreementForDenom(ctx, pmtypes.TakerFeeShareAgreement{Denom: w.denoms[d], SkimPercent: osmomath.MustNewDecFromStr(e[1]), SkimAddress: w.lp.String()})
		if err != nil {
			panic(err)
		}
	}
}

func (w *world) skims() []string {
	out := []string{}
	for _, d := range w.denoms {
		a, ok := w.rk.GetTakerFeeShareAgreementFromDenomUNSAFE(d)
		if ok {
			out = append(out, rawDec(a.SkimPercent))
		} else {
			out = append(out, "-1")
		}
	}
	return out
}

func (w *world) digest(ctx sdk.Context) string {
	hsh := sha256.New()
	for _, key := range []string{banktypes.StoreKey, gammtypes.StoreKey, cltypes.StoreKey, pmtypes.StoreKey} {
		st := ctx.KVStore(w.h.App.GetKey(key))
		it := st.Iterator(nil, nil)
		for ; it.Valid(); it.Next() {
			hsh.Write(it.Key())
			hsh.Write([]byte{0})
			hsh.Write(it.Value())
			hsh.Write([]byte{1})
		}
		it.Close()
	}
	return hex.EncodeToString(hsh.Sum(nil))
}

// balances of: trader, each pool (cl: pool address + spread-rewards address), taker-fee collector, community pool
func (w *world) balances(ctx sdk.Context) [][]string {
	bk := w.h.App.BankKeeper
	ak := w.h.App.AccountKeeper
	row := func(addrs ...sdk.AccAddress) []string {
		out := make([]string, len(w.denoms))
		for i, d := range w.denoms {
			s := osmomath.ZeroInt()
			for _, a := range addrs {
				s = s.Add(bk.GetBalance(ctx, a, d).Amount)
			}
			out[i] = s.String()
		}
		return out
	}
	res := [][]string{row(w.trader)}
	for i, id := range w.poolIds {
		if w.ptype[i] == "cl" {
			p, err := w.h.App.ConcentratedLiquidityKeeper.GetConcentratedPoolById(ctx, id)
			if err != nil {
				panic(err)
			}
			res = append(res, row(p.GetAddress(), p.GetSpreadRewardsAddress()))
		} else {
			p, err := w.h.App.GAMMKeeper.GetPoolAndPoke(ctx, id)
			if err != nil {
				panic(err)
			}
			res = append(res, row(p.GetAddress()))
		}
	}
	res = append(res, row(ak.GetModuleAddress(txfeestypes.TakerFeeCollectorName)))
	res = append(res, row(ak.GetModuleAddress(distrtypes.ModuleName)))
	return res
}

func (w *world) inRoute(r []hopIn) []pmtypes.SwapAmountInRoute {
	out := []pmtypes.SwapAmountInRoute{}
	for _, h := range r {
		out = append(out, pmtypes.SwapAmountInRoute{PoolId: w.poolId(h.P), TokenOutDenom: w.denoms[h.D]})
	}
	return out
}

func (w *world) outRoute(r []hopIn) []pmtypes.SwapAmountOutRoute {
	out := []pmtypes.SwapAmountOutRoute{}
	for _, h := range r {
		out = append(out, pmtypes.SwapAmountOutRoute{PoolId: w.poolId(h.P), TokenInDenom: w.denoms[h.D]})
	}
	return out
}

// exec runs one message (ValidateBasic, then the handler atomically) and fills in the result
func (w *world) exec(ctx sdk.Context, o *opOut) {
	var res osmomath.Int
	err := func() (err error) {
		defer func() {
			if x := recover(); x != nil {
				err = fmt.Errorf("panic: %v", x)
			}
		}()
		switch o.K {
		case "in":
			m := &pmtypes.MsgSwapExactAmountIn{Sender: w.trader.String(), Routes: w.inRoute(o.Route), TokenIn: sdk.Coin{Denom: w.denoms[o.D], Amount: bi(o.Amt)}, TokenOutMinAmount: bi(o.Lim)}
			if err := m.ValidateBasic(); err != nil {
				return err
			}
			return apph.Atomic(ctx, func(cc sdk.Context) error {
				r, e := w.ms.SwapExactAmountIn(cc, m)
				if e == nil {
					res = r.TokenOutAmount
				}
				return e
			})
		case "gin":
			m := &gammtypes.MsgSwapExactAmountIn{Sender: w.trader.String(), Routes: w.inRoute(o.Route), TokenIn: sdk.Coin{Denom: w.denoms[o.D], Amount: bi(o.Amt)}, TokenOutMinAmount: bi(o.Lim)}
			if err := m.ValidateBasic(); err != nil {
				return err
			}
			return apph.Atomic(ctx, func(cc sdk.Context) error {
				r, e := w.gms.SwapExactAmountIn(cc, m)
				if e == nil {
					res = r.TokenOutAmount
				}
				return e
			})
		case "gout":
			m := &gammtypes.MsgSwapExactAmountOut{Sender: w.trader.String(), Routes: w.outRoute(o.Route), TokenOut: sdk.Coin{Denom: w.denoms[o.D], Amount: bi(o.Amt)}, TokenInMaxAmount: bi(o.Lim)}
			if err := m.ValidateBasic(); err != nil {
				return err
			}
			return apph.Atomic(ctx, func(cc sdk.Context) error {
				r, e := w.gms.SwapExactAmountOut(cc, m)
				if e == nil {
					res = r.TokenInAmount
				}
				return e
			})
		case "out":
			m := &pmtypes.MsgSwapExactAmountOut{Sender: w.trader.String(), Routes: w.outRoute(o.Route), TokenOut: sdk.Coin{Denom: w.denoms[o.D], Amount: bi(o.Amt)}, TokenInMaxAmount: bi(o.Lim)}
			if err := m.ValidateBasic(); err != nil {
				return err
			}
			return apph.Atomic(ctx, func(cc sdk.Context) error {
				r, e := w.ms.SwapExactAmountOut(cc, m)
				if e == nil {
					res = r.TokenInAmount
				}
				return e
			})
		case "split_in":
			m := &pmtypes.MsgSplitRouteSwapExactAmountIn{Sender: w.trader.String(), TokenInDenom: w.denoms[o.D], TokenOutMinAmount: bi(o.Lim)}
			for _, l := range o.Legs {
				m.Routes = append(m.Routes, pmtypes.SwapAmountInSplitRoute{Pools: w.inRoute(l.Route), TokenInAmount: bi(l.Amt)})
			}
			if err := m.ValidateBasic(); err != nil {
				return err
			}
			return apph.Atomic(ctx, func(cc sdk.Context) error {
				r, e := w.ms.SplitRouteSwapExactAmountIn(cc, m)
				if e == nil {
					res = r.TokenOutAmount
				}
				return e
			})
		case "split_out":
			m := &pmtypes.MsgSplitRouteSwapExactAmountOut{Sender: w.trader.String(), TokenOutDenom: w.denoms[o.D], TokenInMaxAmount: bi(o.Lim)}
			for _, l := range o.Legs {
				m.Routes = append(m.Routes, pmtypes.SwapAmountOutSplitRoute{Pools: w.outRoute(l.Route), TokenOutAmount: bi(l.Amt)})
			}
			if err := m.ValidateBasic(); err != nil {
				return err
			}
			return apph.Atomic(ctx, func(cc sdk.Context) error {
				r, e := w.ms.SplitRouteSwapExactAmountOut(cc, m)
				if e == nil {
					res = r.TokenInAmount
				}
				return e
			})
		case "est_in":
			d0 := w.digest(ctx)
			r, e := w.q.EstimateSwapExactAmountIn(ctx, queryproto.EstimateSwapExactAmountInRequest{TokenIn: o.Amt + w.denoms[o.D], Routes: w.inRoute(o.Route)})
			if w.digest(ctx) == d0 {
				o.Pure = 1
			}
			if e == nil {
				res = r.TokenOutAmount
			}
			return e
		case "est_out":
			d0 := w.digest(ctx)
			r, e := w.q.EstimateSwapExactAmountOut(ctx, queryproto.EstimateSwapExactAmountOutRequest{TokenOut: o.Amt + w.denoms[o.D], Routes: w.outRoute(o.Route)})
			if w.digest(ctx) == d0 {
				o.Pure = 1
			}
			if e == nil {
				res = r.TokenInAmount
			}
			return e
		}
		return fmt.Errorf("unknown op %s", o.K)
	}()
	o.Err = errk(err)
	o.Etxt = etxt(err)
	if err == nil {
		o.Res = res.String()
	}
}

// sub runs ops sequentially on ctx (which the caller discards); f produces the next op from the results so far (nil = stop)
func (w *world) sub(name string, ctx sdk.Context, next func(done []opOut) *opOut) subrun {
	lg := []rec{}
	w.log = &lg
	s := subrun{Name: name, Ops: []opOut{}}
	s.Bal0 = w.balances(ctx)
	for {
		o := next(s.Ops)
		if o == nil {
			break
		}
		w.exec(ctx, o)
		s.Ops = append(s.Ops, *o)
	}
	s.Bal1 = w.balances(ctx)
	s.Log = lg
	return s
}

func seq(ops ...opOut) func(done []opOut) *opOut {
	return func(done []opOut) *opOut {
		if len(done) < len(ops) {
			o := ops[len(done)]
			return &o
		}
		return nil
	}
}

func runC05(t *testing.T, c caseIn) (o obsOut) {
	w, fatal := setup(t, c)
	if fatal != "" {
		return obsOut{Fatal: fatal}
	}
	defer func() {
		if x := recover(); x != nil {
			o.Fatal = fmt.Sprintf("run panic: %v", x)
		}
	}()
	o.PoolIds = w.poolIds
	base := w.h.Ctx
	for _, id := range w.poolIds {
		p, err := w.h.App.PoolManagerKeeper.GetPool(base, id)
		if err != nil {
			panic(err)
		}
		o.Spreads = append(o.Spreads, rawDec(p.GetSpreadFactor(base)))
	}
	for _, a := range c.Denoms {
		for _, b := range c.Denoms {
			f, err := w.h.App.PoolManagerKeeper.GetTradingPairTakerFee(base, a, b)
			if err != nil {
				panic(err)
			}
			o.Fees = append(o.Fees, rawDec(f))
		}
	}
	o.Skims = w.skims()
	r := c.Run
	branch := func() sdk.Context { cc, _ := base.CacheContext(); return cc }
	huge := new(big.Int).Lsh(big.NewInt(1), 200).String()
	// the estimate(s) first, on S itself; the limit of the message may be given relative to them
	switch r.K {
	case "in":
		o.Runs = append(o.Runs, w.sub("est", base, seq(opOut{K: "est_in", Route: r.Route, D: r.D, Amt: r.Amt})))
	case "out":
		o.Runs = append(o.Runs, w.sub("est", base, seq(opOut{K: "est_out", Route: r.Route, D: r.D, Amt: r.Amt})))
	case "split_in", "split_out":
		var ops []opOut
		for _, l := range r.Legs {
			ops = append(ops, opOut{K: map[string]string{"split_in": "est_in", "split_out": "est_out"}[r.K], Route: l.Route, D: r.D, Amt: l.Amt})
		}
		o.Runs = append(o.Runs, w.sub("est", base, seq(ops...)))
	}
	if r.Lim == "" {
		tot, ok := new(big.Int), len(o.Runs) > 0
		if ok {
			for _, e := range o.Runs[0].Ops {
				if e.Err != 0 {
					ok = false
					break
				}
				v, _ := new(big.Int).SetString(e.Res, 10)
				tot.Add(tot, v)
			}
		}
		if !ok {
			r.Lim = "1"
			if r.K == "out" || r.K == "split_out" {
				r.Lim = huge
			}
		} else {
			if r.LimDen == 0 {
				r.LimNum, r.LimDen = 1, 1
			}
			tot.Mul(tot, big.NewInt(r.LimNum))
			tot.Quo(tot, big.NewInt(r.LimDen))
			tot.Add(tot, big.NewInt(r.LimAdd))
			r.Lim = tot.String()
		}
	}
	switch r.K {
	case "in":
		o.Runs = append(o.Runs, w.sub("exec", branch(), seq(opOut{K: "in", Route: r.Route, D: r.D, Amt: r.Amt, Lim: r.Lim})))
		// hop by hop: the output of each single-hop message is the input of the next; minimum 1 except on the last hop
		o.Runs = append(o.Runs, w.sub("comp", branch(), func(done []opOut) *opOut {
			i := len(done)
			if i >= len(r.Route) || (i > 0 && done[i-1].Err != 0) {
				return nil
			}
			d, amt, lim := r.D, r.Amt, "1"
			if i > 0 {
				d, amt = r.Route[i-1].D, done[i-1].Res
			}
			if i == len(r.Route)-1 {
				lim = r.Lim
			}
			return &opOut{K: "in", Route: []hopIn{r.Route[i]}, D: d, Amt: amt, Lim: lim}
		}))
	case "out":
		o.Runs = append(o.Runs, w.sub("exec", branch(), seq(opOut{K: "out", Route: r.Route, D: r.D, Amt: r.Amt, Lim: r.Lim})))
		// single-hop estimates from the last hop backwards (on S), then single-hop exact-out messages forwards
		n := len(r.Route)
		o.Runs = append(o.Runs, w.sub("comp", branch(), func(done []opOut) *opOut {
			i := len(done)
			if i > 0 && done[i-1].Err != 0 {
				return nil
			}
			outOf := func(j int) (int, string) { // out coin of hop j, given the estimates done so far
				if j == n-1 {
					return r.D, r.Amt
				}
				return r.Route[j+1].D, done[n-1-(j+1)].Res
			}
			if i < n { // estimate hop n-1-i
				j := n - 1 - i
				d, amt := outOf(j)
				return &opOut{K: "est_out", Route: []hopIn{r.Route[j]}, D: d, Amt: amt}
			}
			if i < 2*n {
				j := i - n
				d, amt := outOf(j)
				// the per-hop maxima of the router are internal; a user performing the hops one by one gives
				// only the first hop the maximum of the whole trade
				lim := huge
				if j == 0 {
					lim = r.Lim
				}
				return &opOut{K: "out", Route: []hopIn{r.Route[j]}, D: d, Amt: amt, Lim: lim}
			}
			return nil
		}))
	case "split_in":
		o.Runs = append(o.Runs, w.sub("exec", branch(), seq(opOut{K: "split_in", Legs: r.Legs, D: r.D, Lim: r.Lim})))
		o.Runs = append(o.Runs, w.sub("comp", branch(), func(done []opOut) *opOut {
			i := len(done)
			if i >= len(r.Legs) || (i > 0 && done[i-1].Err != 0) {
				return nil
			}
			return &opOut{K: "in", Route: r.Legs[i].Route, D: r.D, Amt: r.Legs[i].Amt, Lim: "1"}
		}))
	case "split_out":
		o.Runs = append(o.Runs, w.sub("exec", branch(), seq(opOut{K: "split_out", Legs: r.Legs, D: r.D, Lim: r.Lim})))
		o.Runs = append(o.Runs, w.sub("comp", branch(), func(done []opOut) *opOut {
			i := len(done)
			if i >= len(r.Legs) || (i > 0 && done[i-1].Err != 0) {
				return nil
			}
			return &opOut{K: "out", Route: r.Legs[i].Route, D: r.D, Amt: r.Legs[i].Amt, Lim: huge}
		}))
	default:
		o.Fatal = "unknown run kind " + r.K
	}
	return o
}

func TestDriver(t *testing.T) {
	apph.Serve(t, func(t *testing.T, c caseIn) obsOut {
		return runC05(t, c)
	})
}

var _ = strings.HasPrefix
