package routerdrv

// C02 (TestDriverC02): one fresh chain per case; three actors; a history of messages - pool creations (balancer /
// stableswap, 2-8 assets), joins (all-asset, single-asset, exact-shares), exits (proportional, single-asset by shares,
// single-asset by amount), swaps through the router (all four messages), plain bank sends (also to pool addresses) -
// each run as baseapp runs it (ValidateBasic, then the handler under apph.Atomic).  Amounts and limits of an operation may
// be given relative to the live state / to what the pool would compute; the driver resolves them (on throw-away
// branches with a rich account: "probes") and echoes the concrete operation.  The probes are also the source of the
// pool-math table the Coq model replays (C02/Corr.v): how many tokens / shares the real pool computed for this call.
//
// After EVERY message the observation lists: result class and value; bank balances of the actors, every pool address,
// the taker-fee collector and the community pool in every denom (share denoms included); each pool's reported
// liquidity and total shares; the bank supply of every denom.

import (
	"fmt"
	"math/big"
	"runtime/debug"
	"testing"

	sdk "github.com/cosmos/cosmos-sdk/types"
	distrtypes "github.com/cosmos/cosmos-sdk/x/distribution/types"

	"github.com/osmosis-labs/osmosis/osmomath"
	cltypes "github.com/osmosis-labs/osmosis/v31/x/concentrated-liquidity/types"
	gammkeeper "github.com/osmosis-labs/osmosis/v31/x/gamm/keeper"
	"github.com/osmosis-labs/osmosis/v31/x/gamm/pool-models/balancer"
	"github.com/osmosis-labs/osmosis/v31/x/gamm/pool-models/stableswap"
	gammtypes "github.com/osmosis-labs/osmosis/v31/x/gamm/types"
	"github.com/osmosis-labs/osmosis/v31/x/poolmanager"
	pmclient "github.com/osmosis-labs/osmosis/v31/x/poolmanager/client"
	pmtypes "github.com/osmosis-labs/osmosis/v31/x/poolmanager/types"
	txfeestypes "github.com/osmosis-labs/osmosis/v31/x/txfees/types"

	"verifharness/apph"
)

const maxPools = 4

type gopIn struct {
	K string `json:"k"` // create | join | join_extern | join_share_out | exit | exit_share_in | exit_extern_out | swap_in | swap_out | split_in | split_out | send
	A int    `json:"a"` // acting account 0..2
	// create
	T      string   `json:"t"` // bal | ss
	D      []int    `json:"d"`
	Amt    []string `json:"amt"`
	W      []int64  `json:"w"`
	SF     []uint64 `json:"sf"`
	Spread string   `json:"spread"`
	Exit   string   `json:"exit"`
	// pool selection: P-th existing pool (mod count); a literal id when Lit
	P   int  `json:"p"`
	Lit bool `json:"lit"`
	// main amount: Val if non-empty, else base * Num / Den (base depends on the kind, see resolve)
	Val string `json:"val"`
	Num int64  `json:"num"`
	Den int64  `json:"den"`
	Dn  int    `json:"dn"` // denom index (join_extern / join_share_out in, exit_* out, send, swap in (exact-in) / out (exact-out))
	// limit mode: 0 loose, 1 exactly what the pool computes, 2 one unit too tight, 3 one unit of slack; Lim literal if non-empty
	LM  int    `json:"lm"`
	Lim string `json:"lim"`
	// join / exit coin limits: CM 0 none, 1 exact, 2 one coin one unit too tight, 3 a denom missing, 4 a foreign denom added
	CM int `json:"cm"`
	// swaps
	Route []hopIn `json:"route"` // P fields are pool selectors as above
	Legs  []legIn `json:"legs"`  // Amt of a leg: literal
	// send
	To     int  `json:"to"`      // account index, or pool selector when ToPool
	ToPool bool `json:"to_pool"` //
	Gamm   bool `json:"gamm"`    // swap_in / swap_out through the gamm module's own (legacy) swap messages
}

type gcaseIn struct {
	Denoms     []string    `json:"denoms"`
	FeeDefault string      `json:"fee_default"`
	FeePairs   [][3]string `json:"fee_pairs"`
	Skim       [][2]string `json:"skim"`   // taker-fee share agreements: denom idx, skim percent
	WL         []int       `json:"wl"`     // actors on the reduced-taker-fee whitelist
	Exempt     []int       `json:"exempt"` // actors on the unrestricted pool creator whitelist (no creation fee)
	Funds      [][]string  `json:"funds"`  // per actor, per denom
	Ops        []gopIn     `json:"ops"`
}

// a math answer of a real pool: Op 0 out-given-in, 1 in-given-out, 2 calc out, 3 calc in (router proxies);
// 4 all-asset join (V = needed coins; R = shares, RV = remaining coins), 5 single-asset join (A denom, B amount; R shares),
// 6 token in for shares (A denom, B shares; R token in), 7 exit (B shares; RV coins), 8 shares for a single-asset exit (A denom, B amount; R shares)
type gte struct {
	Op   int      `json:"op"`
	Pool uint64   `json:"pool"`
	A    int      `json:"a"`
	B    string   `json:"b"`
	C    int      `json:"c"`
	S    string   `json:"s"` // spread (ops 0-3)
	V    []string `json:"v,omitempty"`
	Ok   bool     `json:"ok"`
	R    string   `json:"r"`
	R2   string   `json:"r2,omitempty"`
	RV   []string `json:"rv,omitempty"`
	Mut  bool     `json:"mut"` // the real call changed the pool record (advances the record version)
}

type gstepOut struct {
	Rop   map[string]interface{} `json:"rop"` // the concrete message
	Err   int                    `json:"err"`
	Val   string                 `json:"val"`
	Etxt  string                 `json:"etxt,omitempty"`
	Tbl   []gte                  `json:"tbl"`
	Bal   [][]string             `json:"bal"`   // 3 actors, maxPools pool addresses, collector, community x (base denoms, maxPools share denoms)
	Liq   [][]string             `json:"liq"`   // per pool slot: reported liquidity per base denom
	Sh    []string               `json:"sh"`    // per pool slot: reported total shares
	Sup   []string               `json:"sup"`   // supply per denom (base, share)
	Pools []uint64               `json:"pools"` // ids of the existing pools, in creation order
	Ext   []bool                 `json:"ext"`   // per pool: balancer?
	Spr   []string               `json:"spr"`   // per pool: spread factor raw
}

type gobsOut struct {
	Fatal string     `json:"fatal,omitempty"`
	Fees  []string   `json:"fees"`
	Skims []string   `json:"skims"`
	CFee  []string   `json:"cfee"` // pool creation fee per base denom
	Init  gstepOut   `json:"init"`
	Steps []gstepOut `json:"steps"`
}

type gworld struct {
	*world
	accs  []sdk.AccAddress
	gms   gammtypes.MsgServer
	bms   balancer.MsgServer
	sms   stableswap.MsgServer
	pools []uint64
	ext   []bool
	tbl   *[]gte
}

func hugeInt(bits uint) osmomath.Int {
	return osmomath.NewIntFromBigInt(new(big.Int).Lsh(big.NewInt(1), bits))
}

func (g *gworld) shareDenom(id uint64) string { return gammtypes.GetPoolShareDenom(id) }

func (g *gworld) sel(p int, lit bool) uint64 {
	if lit || len(g.pools) == 0 {
		if p <= 0 {
			return 1
		}
		return uint64(p)
	}
	if p < 0 {
		p = -p
	}
	return g.pools[p%len(g.pools)]
}

func (g *gworld) richCtx(ctx sdk.Context) sdk.Context {
	pctx, _ := ctx.CacheContext()
	cs := sdk.Coins{}
	for _, d := range g.denoms {
		cs = cs.Add(sdk.NewCoin(d, hugeInt(250)))
	}
	for _, id := range g.pools {
		cs = cs.Add(sdk.NewCoin(g.shareDenom(id), hugeInt(250)))
	}
	g.fund(pctx, g.rich, cs)
	return pctx
}

func (g *gworld) vec(cs sdk.Coins) []string {
	out := make([]string, len(g.denoms))
	for i, d := range g.denoms {
		out[i] = cs.AmountOf(d).String()
	}
	return out
}

func (g *gworld) liq(ctx sdk.Context, id uint64) sdk.Coins {
	l, err := g.h.App.GAMMKeeper.GetTotalPoolLiquidity(ctx, id)
	if err != nil {
		return sdk.Coins{}
	}
	return l
}

func safe(f func() error) (err error) {
	defer func() {
		if x := recover(); x != nil {
			err = fmt.Errorf("panic: %v", x)
		}
	}()
	return f()
}

// ---- probes: what would the pool compute (rich account, no limits, throw-away branch) ----

func (g *gworld) probeJoin(ctx sdk.Context, id uint64, shares osmomath.Int) (need sdk.Coins, out osmomath.Int, ok bool) {
	pctx := g.richCtx(ctx)
	l0 := g.liq(pctx, id)
	e := gte{Op: 4, Pool: id}
	err := safe(func() error {
		var err error
		need, out, err = g.h.App.GAMMKeeper.JoinPoolNoSwap(pctx, g.rich, id, shares, sdk.Coins{})
		return err
	})
	if err != nil {
		// the keeper's own arithmetic may have failed before the pool was asked: recompute the needed coins separately is
		// not possible from outside; the model decides by its own arithmetic and only consults the table when it succeeds
		return nil, osmomath.Int{}, false
	}
	joined := g.liq(pctx, id).Sub(l0...)
	rem, _ := need.SafeSub(joined...)
	e.V, e.Ok, e.R, e.RV, e.Mut = g.vec(need), true, out.String(), g.vec(rem), true
	*g.tbl = append(*g.tbl, e)
	return need, out, true
}

// when JoinPoolNoSwap fails, the failure may be the pool's (table entry needed: error) or the keeper's; log an error entry
// keyed by the needed coins the keeper would have computed, obtained from a pool-independent recomputation by the caller
func (g *gworld) probeJoinErr(id uint64, need []string) {
	*g.tbl = append(*g.tbl, gte{Op: 4, Pool: id, V: need, Ok: false})
}

func (g *gworld) probeJoinExtern(ctx sdk.Context, id uint64, coin sdk.Coin) (osmomath.Int, bool) {
	// the pool's own calculation on an unsaved copy: the keeper's "shares < minimum" / "shares <= 0" checks come after it
	// and must not be mistaken for a failure of the math (a tiny join computes 0 shares and then fails on the MINIMUM)
	pctx, _ := ctx.CacheContext()
	e := gte{Op: 5, Pool: id, A: g.didx(coin.Denom), B: coin.Amount.String()}
	var out osmomath.Int
	err := safe(func() error {
		pool, err := g.h.App.GAMMKeeper.GetCFMMPool(pctx, id)
		if err != nil {
			return err
		}
		out, _, err = pool.CalcJoinPoolShares(pctx, sdk.Coins{coin}, pool.GetSpreadFactor(pctx))
		return err
	})
	if err == nil {
		e.Ok, e.R, e.Mut = true, out.String(), true
	}
	*g.tbl = append(*g.tbl, e)
	return out, err == nil
}

func (g *gworld) probeJoinShareOut(ctx sdk.Context, id uint64, denom string, shares osmomath.Int) (osmomath.Int, bool) {
	// the pool's own calculation, on a copy of the pool (no funds, no limit involved)
	pctx, _ := ctx.CacheContext()
	e := gte{Op: 6, Pool: id, A: g.didx(denom), B: shares.String()}
	var out osmomath.Int
	err := safe(func() error {
		pool, err := g.h.App.GAMMKeeper.GetCFMMPool(pctx, id)
		if err != nil {
			return err
		}
		ext, ok := pool.(gammtypes.PoolAmountOutExtension)
		if !ok {
			return fmt.Errorf("no extension")
		}
		out, err = ext.CalcTokenInShareAmountOut(pctx, denom, shares, pool.GetSpreadFactor(pctx))
		return err
	})
	if err == nil {
		e.Ok, e.R, e.Mut = true, out.String(), true
	}
	*g.tbl = append(*g.tbl, e)
	return out, err == nil
}

func (g *gworld) probeExit(ctx sdk.Context, id uint64, shares osmomath.Int) (sdk.Context, sdk.Coins, bool) {
	pctx := g.richCtx(ctx)
	e := gte{Op: 7, Pool: id, B: shares.String()}
	var out sdk.Coins
	err := safe(func() error {
		var err error
		out, err = g.h.App.GAMMKeeper.ExitPool(pctx, g.rich, id, shares, sdk.Coins{})
		return err
	})
	if err == nil {
		e.Ok, e.RV, e.Mut = true, g.vec(out), true
	}
	*g.tbl = append(*g.tbl, e)
	return pctx, out, err == nil
}

// the swaps ExitSwapShareAmountIn performs after the exit, replayed step by step with the keeper's own SwapExactAmountIn
func (g *gworld) probeExitShareIn(ctx sdk.Context, id uint64, denomOut string, shares osmomath.Int) (osmomath.Int, bool) {
	pctx, coins, ok := g.probeExit(ctx, id, shares)
	if !ok {
		return osmomath.Int{}, false
	}
	total := coins.AmountOf(denomOut)
	for _, c := range coins {
		if c.Denom == denomOut {
			continue
		}
		pool, err := g.h.App.GAMMKeeper.GetPoolAndPoke(pctx, id)
		if err != nil {
			return osmomath.Int{}, false
		}
		sp := pool.GetSpreadFactor(pctx)
		e := gte{Op: 0, Pool: id, A: g.didx(c.Denom), B: c.Amount.String(), C: g.didx(denomOut), S: rawDec(sp)}
		var out osmomath.Int
		err = safe(func() error {
			var err error
			out, err = g.h.App.GAMMKeeper.SwapExactAmountIn(pctx, g.rich, pool, c, denomOut, osmomath.ZeroInt(), sp)
			return err
		})
		if err == nil {
			e.Ok, e.R, e.R2, e.Mut = true, c.Amount.String(), out.String(), true
		}
		*g.tbl = append(*g.tbl, e)
		if err != nil {
			return osmomath.Int{}, false
		}
		total = total.Add(out)
	}
	return total, true
}

func (g *gworld) probeExitExternOut(ctx sdk.Context, id uint64, coin sdk.Coin) (osmomath.Int, bool) {
	// the pool's own calculation, on a copy of the pool that is never saved
	pctx, _ := ctx.CacheContext()
	e := gte{Op: 8, Pool: id, A: g.didx(coin.Denom), B: coin.Amount.String()}
	var out osmomath.Int
	err := safe(func() error {
		pool, err := g.h.App.GAMMKeeper.GetCFMMPool(pctx, id)
		if err != nil {
			return err
		}
		ext, ok := pool.(gammtypes.PoolAmountOutExtension)
		if !ok {
			return fmt.Errorf("no extension")
		}
		out, err = ext.ExitSwapExactAmountOut(pctx, coin, osmomath.NewIntFromBigInt(new(big.Int).Sub(new(big.Int).Lsh(big.NewInt(1), 256), big.NewInt(1))))
		return err
	})
	if err == nil {
		e.Ok, e.R, e.Mut = true, out.String(), true
	}
	*g.tbl = append(*g.tbl, e)
	return out, err == nil
}

// ---- snapshot ----

func (g *gworld) snapshot(ctx sdk.Context, o *gstepOut) {
	bk := g.h.App.BankKeeper
	ak := g.h.App.AccountKeeper
	den := append([]string{}, g.denoms...)
	for i := 0; i < maxPools; i++ {
		if i < len(g.pools) {
			den = append(den, g.shareDenom(g.pools[i]))
		} else {
			den = append(den, "")
		}
	}
	row := func(a sdk.AccAddress) []string {
		out := make([]string, len(den))
		for i, d := range den {
			out[i] = "0"
			if d != "" && a != nil {
				out[i] = bk.GetBalance(ctx, a, d).Amount.String()
			}
		}
		return out
	}
	o.Bal = [][]string{}
	for _, a := range g.accs {
		o.Bal = append(o.Bal, row(a))
	}
	o.Liq, o.Sh, o.Spr = [][]string{}, []string{}, []string{}
	for i := 0; i < maxPools; i++ {
		if i < len(g.pools) {
			p, err := g.h.App.GAMMKeeper.GetPoolAndPoke(ctx, g.pools[i])
			if err != nil {
				panic(err)
			}
			o.Bal = append(o.Bal, row(p.GetAddress()))
			o.Liq = append(o.Liq, g.vec(p.GetTotalPoolLiquidity(ctx)))
			o.Sh = append(o.Sh, p.GetTotalShares().String())
			o.Spr = append(o.Spr, rawDec(p.GetSpreadFactor(ctx)))
		} else {
			o.Bal = append(o.Bal, row(nil))
			o.Liq = append(o.Liq, g.vec(sdk.Coins{}))
			o.Sh = append(o.Sh, "0")
			o.Spr = append(o.Spr, "0")
		}
	}
	o.Bal = append(o.Bal, row(ak.GetModuleAddress(txfeestypes.TakerFeeCollectorName)))
	o.Bal = append(o.Bal, row(ak.GetModuleAddress(distrtypes.ModuleName)))
	o.Sup = make([]string, len(den))
	for i, d := range den {
		o.Sup[i] = "0"
		if d != "" {
			o.Sup[i] = bk.GetSupply(ctx, d).Amount.String()
		}
	}
	o.Pools = append([]uint64{}, g.pools...)
	o.Ext = append([]bool{}, g.ext...)
}

func scale(base osmomath.Int, num, den int64) osmomath.Int {
	if den == 0 {
		num, den = 1, 1
	}
	return base.MulRaw(num).QuoRaw(den)
}

func limOf(mode int, lit string, exact osmomath.Int, ok bool, lower bool) osmomath.Int {
	// lower: the limit is a minimum (min shares / min out); otherwise a maximum
	if lit != "" {
		return bi(lit)
	}
	loose := osmomath.OneInt()
	if !lower {
		loose = hugeInt(200)
	}
	if !ok || mode == 0 {
		return loose
	}
	switch mode {
	case 1:
		return exact
	case 2: // one unit too tight
		if lower {
			return exact.AddRaw(1)
		}
		return exact.SubRaw(1)
	default: // one unit of slack
		if lower {
			return exact.SubRaw(1)
		}
		return exact.AddRaw(1)
	}
}

func (g *gworld) coinLimits(mode int, exact sdk.Coins, ok bool, lower bool) sdk.Coins {
	if mode == 0 || !ok || len(exact) == 0 {
		return sdk.Coins{}
	}
	out := sdk.NewCoins(exact...)
	switch mode {
	case 2:
		c := out[0]
		if lower {
			c.Amount = c.Amount.AddRaw(1)
		} else {
			c.Amount = c.Amount.SubRaw(1)
		}
		if c.Amount.IsPositive() {
			out = sdk.NewCoins(append(sdk.Coins{c}, out[1:]...)...)
		}
	case 3:
		out = out[1:]
	case 4:
		for _, d := range g.denoms {
			if exact.AmountOf(d).IsZero() {
				out = out.Add(sdk.NewCoin(d, osmomath.NewInt(7)))
				break
			}
		}
	}
	return out
}

func pairs(g *gworld, cs sdk.Coins) [][]string {
	out := [][]string{}
	for _, c := range cs {
		out = append(out, []string{fmt.Sprint(g.didx(c.Denom)), c.Amount.String()})
	}
	return out
}

// runOp resolves one operation against the live state, executes it and reports
func (g *gworld) runOp(op gopIn) (o gstepOut) {
	ctx := g.h.Ctx
	app := g.h.App
	tbl := []gte{}
	g.tbl = &tbl
	lg := []rec{}
	g.log = &lg
	actor := g.accs[op.A%len(g.accs)]
	o.Rop = map[string]interface{}{"k": op.K, "a": op.A % len(g.accs)}
	var val osmomath.Int
	hasVal := false
	var err error
	run := func(vb func() error, f func(cc sdk.Context) error) {
		err = safe(func() error {
			if e := vb(); e != nil {
				return e
			}
			return apph.Atomic(ctx, f)
		})
	}
	switch op.K {
	case "create":
		spread := osmomath.MustNewDecFromStr(op.Spread)
		exit := osmomath.ZeroDec()
		if op.Exit != "" {
			exit = osmomath.MustNewDecFromStr(op.Exit)
		}
		assets := [][]string{}
		for i, d := range op.D {
			assets = append(assets, []string{fmt.Sprint(d), op.Amt[i]})
		}
		o.Rop["ext"], o.Rop["assets"], o.Rop["spread"], o.Rop["exit"] = op.T == "bal", assets, rawDec(spread), rawDec(exit)
		var id uint64
		if op.T == "bal" {
			var pa []balancer.PoolAsset
			for i, d := range op.D {
				pa = append(pa, balancer.PoolAsset{Weight: osmomath.NewInt(op.W[i]), Token: sdk.Coin{Denom: g.denoms[d], Amount: bi(op.Amt[i])}})
			}
			msg := balancer.NewMsgCreateBalancerPool(actor, balancer.PoolParams{SwapFee: spread, ExitFee: exit}, pa, "")
			run(msg.ValidateBasic, func(cc sdk.Context) error {
				r, e := g.bms.CreateBalancerPool(cc, &msg)
				if e == nil {
					id = r.PoolID
				}
				return e
			})
		} else {
			coins := sdk.Coins{}
			for i, d := range op.D {
				coins = append(coins, sdk.Coin{Denom: g.denoms[d], Amount: bi(op.Amt[i])})
			}
			coins = coins.Sort()
			sf := make([]uint64, len(coins))
			for i, d := range op.D {
				for j, cn := range coins {
					if cn.Denom == g.denoms[d] && i < len(op.SF) {
						sf[j] = op.SF[i]
					}
				}
			}
			msg := stableswap.NewMsgCreateStableswapPool(actor, stableswap.PoolParams{SwapFee: spread, ExitFee: exit}, coins, sf, "")
			run(msg.ValidateBasic, func(cc sdk.Context) error {
				r, e := g.sms.CreateStableswapPool(cc, &msg)
				if e == nil {
					id = r.PoolID
				}
				return e
			})
		}
		if err == nil {
			g.pools = append(g.pools, id)
			g.poolIds = g.pools
			g.ptype = append(g.ptype, op.T)
			g.ext = append(g.ext, op.T == "bal")
			val, hasVal = osmomath.NewIntFromUint64(id), true
		}
	case "join":
		id := g.sel(op.P, op.Lit)
		shares := bi(op.Val)
		if op.Val == "" {
			base := osmomath.ZeroInt()
			if p, e := app.GAMMKeeper.GetPoolAndPoke(ctx, id); e == nil {
				base = p.GetTotalShares()
			}
			shares = scale(base, op.Num, op.Den)
		}
		need, _, ok := g.probeJoin(ctx, id, shares)
		maxs := g.coinLimits(op.CM, need, ok, false)
		o.Rop["p"], o.Rop["shares"], o.Rop["maxs"] = id, shares.String(), pairs(g, maxs)
		msg := &gammtypes.MsgJoinPool{Sender: actor.String(), PoolId: id, ShareOutAmount: shares, TokenInMaxs: maxs}
		run(msg.ValidateBasic, func(cc sdk.Context) error {
			r, e := g.gms.JoinPool(cc, msg)
			if e == nil {
				val, hasVal = r.ShareOutAmount, true
			}
			return e
		})
	case "join_extern":
		id := g.sel(op.P, op.Lit)
		denom := g.denoms[op.Dn%len(g.denoms)]
		amt := bi(op.Val)
		if op.Val == "" {
			amt = scale(g.liq(ctx, id).AmountOf(denom), op.Num, op.Den)
		}
		coin := sdk.Coin{Denom: denom, Amount: amt}
		exact, ok := osmomath.Int{}, false
		if amt.IsPositive() {
			exact, ok = g.probeJoinExtern(ctx, id, coin)
		}
		lim := limOf(op.LM, op.Lim, exact, ok, true)
		o.Rop["p"], o.Rop["d"], o.Rop["amt"], o.Rop["lim"] = id, g.didx(denom), amt.String(), lim.String()
		msg := &gammtypes.MsgJoinSwapExternAmountIn{Sender: actor.String(), PoolId: id, TokenIn: coin, ShareOutMinAmount: lim}
		run(msg.ValidateBasic, func(cc sdk.Context) error {
			r, e := g.gms.JoinSwapExternAmountIn(cc, msg)
			if e == nil {
				val, hasVal = r.ShareOutAmount, true
			}
			return e
		})
	case "join_share_out":
		id := g.sel(op.P, op.Lit)
		denom := g.denoms[op.Dn%len(g.denoms)]
		shares := bi(op.Val)
		if op.Val == "" {
			base := osmomath.ZeroInt()
			if p, e := app.GAMMKeeper.GetPoolAndPoke(ctx, id); e == nil {
				base = p.GetTotalShares()
			}
			shares = scale(base, op.Num, op.Den)
		}
		exact, ok := g.probeJoinShareOut(ctx, id, denom, shares)
		lim := limOf(op.LM, op.Lim, exact, ok, false)
		o.Rop["p"], o.Rop["d"], o.Rop["shares"], o.Rop["lim"] = id, g.didx(denom), shares.String(), lim.String()
		msg := &gammtypes.MsgJoinSwapShareAmountOut{Sender: actor.String(), PoolId: id, TokenInDenom: denom, ShareOutAmount: shares, TokenInMaxAmount: lim}
		run(msg.ValidateBasic, func(cc sdk.Context) error {
			r, e := g.gms.JoinSwapShareAmountOut(cc, msg)
			if e == nil {
				val, hasVal = r.TokenInAmount, true
			}
			return e
		})
	case "exit", "exit_share_in":
		id := g.sel(op.P, op.Lit)
		shares := bi(op.Val)
		if op.Val == "" {
			base := app.BankKeeper.GetBalance(ctx, actor, g.shareDenom(id)).Amount
			shares = scale(base, op.Num, op.Den)
			if !shares.IsPositive() {
				shares = osmomath.OneInt()
			}
		}
		if op.K == "exit" {
			_, coins, ok := g.probeExit(ctx, id, shares)
			mins := g.coinLimits(op.CM, coins, ok, true)
			o.Rop["p"], o.Rop["shares"], o.Rop["mins"] = id, shares.String(), pairs(g, mins)
			msg := &gammtypes.MsgExitPool{Sender: actor.String(), PoolId: id, ShareInAmount: shares, TokenOutMins: mins}
			run(msg.ValidateBasic, func(cc sdk.Context) error {
				r, e := g.gms.ExitPool(cc, msg)
				if e == nil {
					t := osmomath.ZeroInt()
					for _, c := range r.TokenOut {
						t = t.Add(c.Amount)
					}
					val, hasVal = t, true
				}
				return e
			})
		} else {
			denom := g.denoms[op.Dn%len(g.denoms)]
			exact, ok := g.probeExitShareIn(ctx, id, denom, shares)
			lim := limOf(op.LM, op.Lim, exact, ok, true)
			o.Rop["p"], o.Rop["d"], o.Rop["shares"], o.Rop["lim"] = id, g.didx(denom), shares.String(), lim.String()
			msg := &gammtypes.MsgExitSwapShareAmountIn{Sender: actor.String(), PoolId: id, TokenOutDenom: denom, ShareInAmount: shares, TokenOutMinAmount: lim}
			run(msg.ValidateBasic, func(cc sdk.Context) error {
				r, e := g.gms.ExitSwapShareAmountIn(cc, msg)
				if e == nil {
					val, hasVal = r.TokenOutAmount, true
				}
				return e
			})
		}
	case "exit_extern_out":
		id := g.sel(op.P, op.Lit)
		denom := g.denoms[op.Dn%len(g.denoms)]
		amt := bi(op.Val)
		if op.Val == "" {
			amt = scale(g.liq(ctx, id).AmountOf(denom), op.Num, op.Den)
		}
		coin := sdk.Coin{Denom: denom, Amount: amt}
		exact, ok := osmomath.Int{}, false
		if amt.IsPositive() {
			exact, ok = g.probeExitExternOut(ctx, id, coin)
		}
		lim := limOf(op.LM, op.Lim, exact, ok, false)
		o.Rop["p"], o.Rop["d"], o.Rop["amt"], o.Rop["lim"] = id, g.didx(denom), amt.String(), lim.String()
		msg := &gammtypes.MsgExitSwapExternAmountOut{Sender: actor.String(), PoolId: id, TokenOut: coin, ShareInMaxAmount: lim}
		run(msg.ValidateBasic, func(cc sdk.Context) error {
			r, e := g.gms.ExitSwapExternAmountOut(cc, msg)
			if e == nil {
				val, hasVal = r.ShareInAmount, true
			}
			return e
		})
	case "swap_in", "swap_out", "split_in", "split_out":
		g.trader = actor
		kind := op.K[5:]
		if op.K[:5] == "split" {
			kind = op.K
		}
		res := func(r []hopIn) []hopIn {
			out := []hopIn{}
			for _, h := range r {
				out = append(out, hopIn{P: int(g.sel(h.P, false)), D: h.D})
			}
			return out
		}
		// hopIn.P of the echoed op is the real pool id; inRoute/outRoute map indices through g.poolIds, so use ids directly
		oo := opOut{K: kind, D: op.Dn}
		var estBase osmomath.Int
		estOk := false
		if kind == "in" || kind == "out" {
			oo.Route = res(op.Route)
			amt := bi(op.Val)
			if op.Val == "" && len(oo.Route) > 0 {
				h := oo.Route[0]
				d := op.Dn
				if kind == "out" {
					h = oo.Route[len(oo.Route)-1]
				}
				amt = scale(g.liq(ctx, uint64(h.P)).AmountOf(g.denoms[d%len(g.denoms)]), op.Num, op.Den)
			}
			oo.Amt = amt.String()
			if amt.IsPositive() {
				eo := opOut{K: "est_" + kind, Route: oo.Route, D: oo.D, Amt: oo.Amt}
				cc, _ := ctx.CacheContext()
				g.execIds(cc, &eo)
				if eo.Err == 0 {
					estBase, estOk = bi(eo.Res), true
				}
			}
		} else {
			for _, l := range op.Legs {
				oo.Legs = append(oo.Legs, legIn{Route: res(l.Route), Amt: l.Amt})
			}
			tot := osmomath.ZeroInt()
			estOk = len(oo.Legs) > 0
			for _, l := range oo.Legs {
				eo := opOut{K: map[string]string{"split_in": "est_in", "split_out": "est_out"}[kind], Route: l.Route, D: oo.D, Amt: l.Amt}
				cc, _ := ctx.CacheContext()
				g.execIds(cc, &eo)
				if eo.Err != 0 {
					estOk = false
					break
				}
				tot = tot.Add(bi(eo.Res))
			}
			estBase = tot
		}
		lg = []rec{} // the estimates' calc calls are not part of the message
		g.log = &lg
		lower := kind == "in" || kind == "split_in"
		oo.Lim = limOf(op.LM, op.Lim, estBase, estOk, lower).String()
		if op.Gamm && (kind == "in" || kind == "out") {
			oo.K = "g" + kind
			o.Rop["via"] = "gamm"
		}
		g.execIds(ctx, &oo)
		o.Rop["kind"], o.Rop["route"], o.Rop["legs"], o.Rop["d"], o.Rop["amt"], o.Rop["lim"] = kind, oo.Route, oo.Legs, oo.D, oo.Amt, oo.Lim
		o.Err, o.Val, o.Etxt = oo.Err, oo.Res, oo.Etxt
		for _, r := range lg {
			e := gte{Op: map[string]int{"si": 0, "so": 1, "co": 2, "ci": 3}[r.Op], Pool: uint64(r.Pool), A: r.X, B: r.Amt, C: r.Y, S: r.Spread}
			if r.Op == "si" || r.Op == "so" {
				e.Ok, e.R, e.R2, e.Mut = r.PErr == 0, r.P1, r.P2, r.Err == 0
			} else {
				e.Ok, e.R = r.Err == 0, r.R1
			}
			tbl = append(tbl, e)
		}
		o.Tbl = tbl
		g.snapshot(ctx, &o)
		return o
	case "send":
		denom := g.denoms[op.Dn%len(g.denoms)]
		amt := bi(op.Val)
		var to sdk.AccAddress
		if op.ToPool {
			id := g.sel(op.To, false)
			o.Rop["to_pool"] = id
			if p, e := app.GAMMKeeper.GetPoolAndPoke(ctx, id); e == nil {
				to = p.GetAddress()
			} else {
				to = g.accs[0]
				o.Rop["to_pool"] = 0
				o.Rop["to"] = 0
			}
		} else {
			to = g.accs[op.To%len(g.accs)]
			o.Rop["to"] = op.To % len(g.accs)
		}
		o.Rop["d"], o.Rop["amt"] = g.didx(denom), amt.String()
		coins := sdk.Coins{sdk.Coin{Denom: denom, Amount: amt}}
		run(func() error {
			if !coins.IsValid() || !coins.IsAllPositive() {
				return fmt.Errorf("invalid coins")
			}
			return nil
		}, func(cc sdk.Context) error {
			return app.BankKeeper.SendCoins(cc, actor, to, coins)
		})
		if err == nil {
			val, hasVal = osmomath.ZeroInt(), true
		}
	default:
		err = fmt.Errorf("unknown op %s", op.K)
	}
	o.Err, o.Etxt = errk(err), etxt(err)
	if err == nil && hasVal {
		o.Val = val.String()
	}
	o.Tbl = tbl
	g.snapshot(ctx, &o)
	return o
}

// execIds is world.exec for routes whose hop P fields already are real pool ids
func (g *gworld) execIds(ctx sdk.Context, o *opOut) {
	saved := g.poolIds
	ids := make([]uint64, 0)
	// identity mapping: pool "index" i -> id i
	maxId := 0
	for _, h := range o.Route {
		if h.P > maxId {
			maxId = h.P
		}
	}
	for _, l := range o.Legs {
		for _, h := range l.Route {
			if h.P > maxId {
				maxId = h.P
			}
		}
	}
	for i := 0; i <= maxId; i++ {
		ids = append(ids, uint64(i))
	}
	g.poolIds = ids
	g.exec(ctx, o)
	g.poolIds = saved
}

func runC02(t *testing.T, c gcaseIn) (o gobsOut) {
	defer func() {
		if x := recover(); x != nil {
			o.Fatal = fmt.Sprintf("panic: %v\n%s", x, debug.Stack())
		}
	}()
	h := apph.New(t)
	w := &world{h: h, denoms: c.Denoms}
	w.lp, w.rich = h.TestAccs[0], h.TestAccs[2]
	g := &gworld{world: w}
	ctx := h.Ctx
	app := h.App
	// three actors distinct from the rich probe account
	g.accs = []sdk.AccAddress{h.TestAccs[0], h.TestAccs[1], sdk.AccAddress([]byte("verif-actor-2-------"))}
	for i, a := range g.accs {
		cs := sdk.Coins{}
		for j, f := range c.Funds[i] {
			if v := bi(f); v.IsPositive() {
				cs = cs.Add(sdk.NewCoin(c.Denoms[j], v))
			}
		}
		if !cs.IsZero() {
			w.fund(ctx, a, cs)
		}
	}
	if c.FeeDefault != "" {
		app.PoolManagerKeeper.SetParam(ctx, pmtypes.KeyDefaultTakerFee, osmomath.MustNewDecFromStr(c.FeeDefault))
	}
	for _, fp := range c.FeePairs {
		var a, b int
		fmt.Sscan(fp[0], &a)
		fmt.Sscan(fp[1], &b)
		app.PoolManagerKeeper.SetDenomPairTakerFee(ctx, c.Denoms[a], c.Denoms[b], osmomath.MustNewDecFromStr(fp[2]))
	}
	wl := []string{}
	for _, i := range c.WL {
		wl = append(wl, g.accs[i].String())
	}
	if len(wl) > 0 {
		app.PoolManagerKeeper.SetParam(ctx, pmtypes.KeyReducedTakerFeeByWhitelist, wl)
	}
	if len(c.Exempt) > 0 {
		ex := []string{}
		for _, i := range c.Exempt {
			ex = append(ex, g.accs[i].String())
		}
		p := app.ConcentratedLiquidityKeeper.GetParams(ctx)
		p.UnrestrictedPoolCreatorWhitelist = ex
		app.ConcentratedLiquidityKeeper.SetParams(ctx, p)
	}
	lg := []rec{}
	w.log = &lg
	gp := proxy{PoolModuleI: app.GAMMKeeper, w: w}
	cp := clproxy{proxy: proxy{PoolModuleI: app.ConcentratedLiquidityKeeper, w: w}, c: app.ConcentratedLiquidityKeeper}
	w.rk = poolmanager.NewKeeper(app.GetKey(pmtypes.StoreKey), app.GetSubspace(pmtypes.ModuleName), gp, cp, app.CosmwasmPoolKeeper,
		app.BankKeeper, app.AccountKeeper, app.DistrKeeper, app.StakingKeeper, app.ProtoRevKeeper, app.WasmKeeper)
	w.ms = poolmanager.NewMsgServerImpl(w.rk)
	w.q = pmclient.NewQuerier(w.rk)
	app.GAMMKeeper.SetPoolManager(w.rk) // the gamm keeper's own router calls (legacy swap messages, CreatePool) go through the recording keeper
	g.gms = gammkeeper.NewMsgServerImpl(app.GAMMKeeper)
	w.gms = g.gms
	g.bms = gammkeeper.NewBalancerMsgServerImpl(app.GAMMKeeper)
	g.sms = gammkeeper.NewStableswapMsgServerImpl(app.GAMMKeeper)
	for _, a := range c.Denoms {
		for _, b := range c.Denoms {
			f, err := app.PoolManagerKeeper.GetTradingPairTakerFee(ctx, a, b)
			if err != nil {
				panic(err)
			}
			o.Fees = append(o.Fees, rawDec(f))
		}
	}
	w.setSkims(ctx, c.Skim)
	o.Skims = w.skims()
	o.CFee = g.vec(app.PoolManagerKeeper.GetParams(ctx).PoolCreationFee)
	g.snapshot(ctx, &o.Init)
	for _, op := range c.Ops {
		o.Steps = append(o.Steps, g.runOp(op))
	}
	return o
}

func TestDriverC02(t *testing.T) {
	apph.Serve(t, func(t *testing.T, c gcaseIn) gobsOut {
		return runC02(t, c)
	})
}

var _ = cltypes.ModuleName
