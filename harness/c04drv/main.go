// c04drv runs the real balancer / stableswap pool models of /repo (x/gamm/pool-models) on in-memory
// pools: one JSON case per line on stdin (a pool and a short list of operations), one JSON observation
// per case on stdout.  All numbers are decimal strings (token amounts / shares are integers, fees are
// raw 18-decimal mantissas).  No keeper, no app: pools are built with NewBalancerPool /
// NewStableswapPool and then given the case's share total.
//
// Atomicity (DESIGN.md 1.5): every mutating operation runs on a copy of the pool which replaces the
// pool only when the call returned nil (and did not panic) - the keeper never stores a pool after an
// error.
package main

import (
	"bufio"
	"encoding/json"
	"fmt"
	"math/big"
	"os"
	"strings"
	"time"

	storetypes "cosmossdk.io/store/types"
	sdk "github.com/cosmos/cosmos-sdk/types"

	"github.com/osmosis-labs/osmosis/osmomath"
	"github.com/osmosis-labs/osmosis/v31/x/gamm/pool-models/balancer"
	"github.com/osmosis-labs/osmosis/v31/x/gamm/pool-models/stableswap"
)

type asset struct {
	Amt string `json:"amt"`
	W   string `json:"w"`  // balancer: user-specified weight (scaled by GuaranteedWeightPrecision inside)
	SF  uint64 `json:"sf"` // stableswap: scaling factor
}

type op struct {
	Op   string   `json:"op"`
	I    int      `json:"i"`
	J    int      `json:"j"`
	Amt  string   `json:"amt"`
	Amts []string `json:"amts"`
}

type tcase struct {
	Kind    string  `json:"kind"` // "bal" | "ss"
	Assets  []asset `json:"assets"`
	Shares  string  `json:"shares"`
	Fee     string  `json:"fee"`     // raw 18-decimal
	ExitFee string  `json:"exitfee"` // raw 18-decimal
	Ops     []op    `json:"ops"`
}

type obs struct {
	Flat []string `json:"flat"`
	Msgs []string `json:"msgs,omitempty"`
	Err  string   `json:"err,omitempty"`
}

// error enum - must agree with coq/theories/C04/Common.v and props/c04.py.  The fine class is a DIAGNOSTIC read off the failure
// text; a failure whose text is not recognised is reported as eOther = the generic failure class, which the comparison
// (Corr.v code_compat) accepts wherever the model predicts a failure of any class: a reworded message is not a disagreement.
const (
	eOK            = 0
	eShape         = 1  // wrong denoms / wrong number of coins
	eExitAll       = 2  // exiting shares >= total shares
	eTooManyOut    = 3  // "too many shares out"
	eNoRatio       = 4  // "unexpected error in MaximalExactRatioJoin"
	eNotPositive   = 5  // ErrInvalidMathApprox "token amount must be positive"
	ePowBaseLE0    = 6
	ePowBaseGE2    = 7
	ePowIter       = 8
	eOverflow      = 9
	eDivZero       = 10
	eMinScaled     = 11
	eMaxScaled     = 12
	eInputTooLarge = 13 // "cannot input more than pool reserves"
	eOutputTooBig  = 14 // "invalid output: greater than full pool reserves"
	eNoConverge    = 15
	eBadReserves   = 16 // "invalid input: reserves ... must be positive"
	eReqNotPos     = 17 // ErrNotPositiveRequireAmount
	eZeroBalance   = 18 // "can't set the pool's balance of a token to be zero or negative" / coin not positive
	eKZero         = 19
	eNegCoin       = 20
	eMoreJoined    = 21
	eOther         = 99
)

func classify(msg string) int {
	switch {
	case strings.Contains(msg, "does not exist in the pool"), strings.Contains(msg, "denom does not exist in pool"),
		strings.Contains(msg, "only supports LP'ing with one asset"), strings.Contains(msg, "no-swap joins require"),
		strings.Contains(msg, "attempted joining pool with assets that do not exist"), strings.Contains(msg, "is of wrong length"),
		strings.Contains(msg, "to be of length one"), strings.Contains(msg, "not found in pool liquidity"),
		strings.Contains(msg, "can't find the PoolAsset"):
		return eShape
	case strings.Contains(msg, "cannot exit all shares in a pool"):
		return eExitAll
	case strings.Contains(msg, "too many shares out"):
		return eTooManyOut
	case strings.Contains(msg, "unexpected error in MaximalExactRatioJoin"):
		return eNoRatio
	case strings.Contains(msg, "base must be greater than 0"):
		return ePowBaseLE0
	case strings.Contains(msg, "base must be lesser than two"):
		return ePowBaseGE2
	case strings.Contains(msg, "failed to reach precision within"):
		return ePowIter
	case strings.Contains(msg, "Int overflow"), strings.Contains(msg, "integer overflow"), strings.Contains(msg, "out of bound"):
		return eOverflow
	case strings.Contains(msg, "division by zero"), strings.Contains(msg, "Division by zero"):
		return eDivZero
	case strings.Contains(msg, "can not be less than 1"):
		return eMinScaled
	case strings.Contains(msg, "can not exceed 10^34"):
		return eMaxScaled
	case strings.Contains(msg, "cannot input more than pool reserves"):
		return eInputTooLarge
	case strings.Contains(msg, "invalid output: greater than full pool reserves"):
		return eOutputTooBig
	case strings.Contains(msg, "hit maximum iterations"):
		return eNoConverge
	case strings.Contains(msg, "invalid input: reserves"):
		return eBadReserves
	case strings.Contains(msg, "required amount should be positive"):
		return eReqNotPos
	case strings.Contains(msg, "token amount must be positive"):
		return eNotPositive
	case strings.Contains(msg, "to be zero or negative"), strings.Contains(msg, "amount is not positive"):
		return eZeroBalance
	case strings.Contains(msg, "k should never be zero"):
		return eKZero
	case strings.Contains(msg, "negative coin amount"):
		return eNegCoin
	case strings.Contains(msg, "more coins joined than"):
		return eMoreJoined
	}
	return eOther
}

func denom(i int) string { return fmt.Sprintf("tok%d", i) }

func mustInt(s string) osmomath.Int {
	b, ok := new(big.Int).SetString(s, 10)
	if !ok {
		panic("c04drv: bad integer " + s)
	}
	return osmomath.NewIntFromBigInt(b)
}

func rawDec(s string) osmomath.Dec {
	b, ok := new(big.Int).SetString(s, 10)
	if !ok {
		panic("c04drv: bad raw dec " + s)
	}
	return osmomath.NewDecFromBigIntWithPrec(b, 18)
}

// the pool under test, behind one interface
type pool interface {
	SwapOutAmtGivenIn(ctx sdk.Context, tokensIn sdk.Coins, tokenOutDenom string, spreadFactor osmomath.Dec) (sdk.Coin, error)
	CalcOutAmtGivenIn(ctx sdk.Context, tokensIn sdk.Coins, tokenOutDenom string, spreadFactor osmomath.Dec) (sdk.Coin, error)
	SwapInAmtGivenOut(ctx sdk.Context, tokensOut sdk.Coins, tokenInDenom string, spreadFactor osmomath.Dec) (sdk.Coin, error)
	CalcInAmtGivenOut(ctx sdk.Context, tokensOut sdk.Coins, tokenInDenom string, spreadFactor osmomath.Dec) (sdk.Coin, error)
	JoinPool(ctx sdk.Context, tokensIn sdk.Coins, spreadFactor osmomath.Dec) (osmomath.Int, error)
	JoinPoolNoSwap(ctx sdk.Context, tokensIn sdk.Coins, spreadFactor osmomath.Dec) (osmomath.Int, error)
	CalcJoinPoolShares(ctx sdk.Context, tokensIn sdk.Coins, spreadFactor osmomath.Dec) (osmomath.Int, sdk.Coins, error)
	CalcJoinPoolNoSwapShares(ctx sdk.Context, tokensIn sdk.Coins, spreadFactor osmomath.Dec) (osmomath.Int, sdk.Coins, error)
	ExitPool(ctx sdk.Context, exitingShares osmomath.Int, exitFee osmomath.Dec) (sdk.Coins, error)
	CalcExitPoolCoinsFromShares(ctx sdk.Context, exitingShares osmomath.Int, exitFee osmomath.Dec) (sdk.Coins, error)
	GetTotalPoolLiquidity(ctx sdk.Context) sdk.Coins
	GetTotalShares() osmomath.Int
}

type runner struct {
	kind string
	n    int
	bal  *balancer.Pool
	ss   *stableswap.Pool
	fee  osmomath.Dec
	exit osmomath.Dec
	ctx  sdk.Context
}

func (r *runner) cur() pool {
	if r.kind == "bal" {
		return r.bal
	}
	return r.ss
}

// deep-enough copy: the pool structs share no mutable big.Int with the original through the methods used here
func (r *runner) snapshot() (*balancer.Pool, *stableswap.Pool) {
	if r.kind == "bal" {
		cp := *r.bal
		cp.PoolAssets = r.bal.GetAllPoolAssets()
		return &cp, nil
	}
	cp := r.ss.Copy()
	cp.ScalingFactors = append([]uint64{}, r.ss.ScalingFactors...)
	return nil, &cp
}

func build(c tcase) (*runner, error) {
	r := &runner{kind: c.Kind, n: len(c.Assets), fee: rawDec(c.Fee), exit: rawDec(c.ExitFee)}
	r.ctx = sdk.Context{}.WithGasMeter(storetypes.NewInfiniteGasMeter())
	if c.Kind == "bal" {
		pas := make([]balancer.PoolAsset, len(c.Assets))
		for i, a := range c.Assets {
			pas[i] = balancer.PoolAsset{Token: sdk.NewCoin(denom(i), mustInt(a.Amt)), Weight: mustInt(a.W)}
		}
		p, err := balancer.NewBalancerPool(1, balancer.PoolParams{SwapFee: r.fee, ExitFee: r.exit}, pas, "", time.Unix(1000, 0))
		if err != nil {
			return nil, err
		}
		p.TotalShares.Amount = mustInt(c.Shares)
		r.bal = &p
		return r, nil
	}
	coins := make(sdk.Coins, len(c.Assets))
	sfs := make([]uint64, len(c.Assets))
	for i, a := range c.Assets {
		coins[i] = sdk.NewCoin(denom(i), mustInt(a.Amt))
		sfs[i] = a.SF
	}
	p, err := stableswap.NewStableswapPool(1, stableswap.PoolParams{SwapFee: r.fee, ExitFee: r.exit}, coins, sfs, "", "")
	if err != nil {
		return nil, err
	}
	p.TotalShares.Amount = mustInt(c.Shares)
	r.ss = &p
	return r, nil
}

func (r *runner) coinsOf(amts []string) sdk.Coins {
	cs := sdk.Coins{}
	for i, a := range amts {
		if a == "" || a == "0" {
			continue
		}
		d := denom(i)
		if i >= r.n { // a denom the pool does not have (malformed stream)
			d = "zzz" + denom(i)
		}
		cs = append(cs, sdk.NewCoin(d, mustInt(a)))
	}
	return cs
}

func (r *runner) vec(cs sdk.Coins) []string {
	out := make([]string, r.n)
	for i := 0; i < r.n; i++ {
		out[i] = cs.AmountOfNoDenomValidation(denom(i)).String()
	}
	return out
}

func zeros(k int) []string {
	out := make([]string, k)
	for i := range out {
		out[i] = "0"
	}
	return out
}

// runs one op; returns (result values, error message or "")
func (r *runner) apply(o op) (res []string, nres int, emsg string) {
	mutating := map[string]bool{"swapOut": true, "swapIn": true, "join": true, "joinNoSwap": true, "exit": true, "exitSwapOut": true}
	switch o.Op {
	case "swapOut", "swapIn", "calcOut", "calcIn", "joinNoSwap", "join", "exitSwapOut", "calcTokenInShareOut":
		nres = 1
	case "calcJoin", "calcJoinNoSwap":
		nres = 1 + r.n
	case "exit", "calcExit":
		nres = r.n
	default:
		return zeros(1), 1, "c04drv: unknown op " + o.Op
	}
	sb, ss := r.snapshot()
	var err error
	func() {
		defer func() {
			if x := recover(); x != nil {
				err = fmt.Errorf("panic: %v", x)
			}
		}()
		p := r.cur()
		switch o.Op {
		case "swapOut", "calcOut":
			in := sdk.Coins{sdk.NewCoin(denom(o.I), mustInt(o.Amt))}
			var c sdk.Coin
			if o.Op == "swapOut" {
				c, err = p.SwapOutAmtGivenIn(r.ctx, in, denom(o.J), r.fee)
			} else {
				c, err = p.CalcOutAmtGivenIn(r.ctx, in, denom(o.J), r.fee)
			}
			if err == nil {
				res = []string{c.Amount.String()}
			}
		case "swapIn", "calcIn":
			out := sdk.Coins{sdk.NewCoin(denom(o.I), mustInt(o.Amt))}
			var c sdk.Coin
			if o.Op == "swapIn" {
				c, err = p.SwapInAmtGivenOut(r.ctx, out, denom(o.J), r.fee)
			} else {
				c, err = p.CalcInAmtGivenOut(r.ctx, out, denom(o.J), r.fee)
			}
			if err == nil {
				res = []string{c.Amount.String()}
			}
		case "join", "joinNoSwap":
			var s osmomath.Int
			if o.Op == "join" {
				s, err = p.JoinPool(r.ctx, r.coinsOf(o.Amts), r.fee)
			} else {
				s, err = p.JoinPoolNoSwap(r.ctx, r.coinsOf(o.Amts), r.fee)
			}
			if err == nil {
				res = []string{s.String()}
			}
		case "calcJoin", "calcJoinNoSwap":
			var s osmomath.Int
			var joined sdk.Coins
			if o.Op == "calcJoin" {
				s, joined, err = p.CalcJoinPoolShares(r.ctx, r.coinsOf(o.Amts), r.fee)
			} else {
				s, joined, err = p.CalcJoinPoolNoSwapShares(r.ctx, r.coinsOf(o.Amts), r.fee)
			}
			if err == nil {
				res = append([]string{s.String()}, r.vec(joined)...)
			}
		case "exit", "calcExit":
			var cs sdk.Coins
			if o.Op == "exit" {
				cs, err = p.ExitPool(r.ctx, mustInt(o.Amt), r.exit)
			} else {
				cs, err = p.CalcExitPoolCoinsFromShares(r.ctx, mustInt(o.Amt), r.exit)
			}
			if err == nil {
				res = r.vec(cs)
			}
		case "exitSwapOut":
			if r.kind != "bal" {
				err = fmt.Errorf("c04drv: balancer only")
				return
			}
			var s osmomath.Int
			huge := osmomath.NewIntFromBigInt(new(big.Int).Lsh(big.NewInt(1), 250))
			s, err = r.bal.ExitSwapExactAmountOut(r.ctx, sdk.NewCoin(denom(o.I), mustInt(o.Amt)), huge)
			if err == nil {
				res = []string{s.String()}
			}
		case "calcTokenInShareOut":
			if r.kind != "bal" {
				err = fmt.Errorf("c04drv: balancer only")
				return
			}
			var a osmomath.Int
			a, err = r.bal.CalcTokenInShareAmountOut(r.ctx, denom(o.I), mustInt(o.Amt), r.fee)
			if err == nil {
				res = []string{a.String()}
			}
		}
	}()
	if err != nil || !mutating[o.Op] {
		// failed calls are rolled back (atomicity); the calc variants are documented as non-mutative: the
		// state observed afterwards is the live pool, so a calc that mutates is visible
		if err != nil {
			if r.kind == "bal" {
				r.bal = sb
			} else {
				r.ss = ss
			}
			return zeros(nres), nres, err.Error()
		}
	}
	return res, nres, ""
}

func (r *runner) state() []string {
	p := r.cur()
	return append(r.vec(p.GetTotalPoolLiquidity(r.ctx)), p.GetTotalShares().String())
}

func run(c tcase) (o obs) {
	defer func() {
		if x := recover(); x != nil {
			o = obs{Err: fmt.Sprintf("driver panic: %v", x)}
		}
	}()
	r, err := build(c)
	if err != nil {
		// pool construction refused: a single observation [-1, code]
		return obs{Flat: []string{"-1", fmt.Sprint(classify(err.Error()))}, Msgs: []string{err.Error()}}
	}
	flat := []string{}
	msgs := []string{}
	for _, op := range c.Ops {
		res, _, emsg := r.apply(op)
		code := eOK
		if emsg != "" {
			code = classify(emsg)
			if len(emsg) > 160 {
				emsg = emsg[:160]
			}
			msgs = append(msgs, emsg)
		}
		flat = append(flat, fmt.Sprint(code))
		flat = append(flat, res...)
		flat = append(flat, r.state()...)
	}
	return obs{Flat: flat, Msgs: msgs}
}

func main() {
	in := bufio.NewReaderSize(os.Stdin, 1<<20)
	out := bufio.NewWriter(os.Stdout)
	defer out.Flush()
	dec := json.NewDecoder(in)
	for dec.More() {
		var c tcase
		if err := dec.Decode(&c); err != nil {
			fmt.Fprintln(os.Stderr, "c04drv: bad case:", err)
			os.Exit(2)
		}
		b, _ := json.Marshal(run(c))
		out.Write(b)
		out.WriteByte('\n')
	}
}
