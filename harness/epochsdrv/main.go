// epochsdrv runs the real x/epochs keeper (BeginBlocker, MultiEpochHooks, ApplyFuncIfNoError) on
// scripted cases read from stdin (one JSON case per line) and prints one JSON observation per case.
package main

import (
	"bufio"
	"encoding/binary"
	"encoding/json"
	"fmt"
	"os"
	"time"

	storetypes "cosmossdk.io/store/types"
	"github.com/cosmos/cosmos-sdk/testutil"
	sdk "github.com/cosmos/cosmos-sdk/types"

	epochskeeper "github.com/osmosis-labs/osmosis/x/epochs/keeper"
	"github.com/osmosis-labs/osmosis/x/epochs/types"
)

type timer struct {
	ID    int   `json:"id"`
	Start int64 `json:"start"`
	Dur   int64 `json:"dur"`
}

type scriptEntry struct {
	K      int        `json:"k"`
	I      int        `json:"i"`
	Kind   string     `json:"kind"` // ok | err | panic | oog
	Writes [][2]int64 `json:"writes"`
}

type tcase struct {
	Timers []timer       `json:"timers"`
	NSubs  int           `json:"nsubs"`
	Blocks [][2]int64    `json:"blocks"`
	Script []scriptEntry `json:"script"`
}

type obs struct {
	Flat   []int64 `json:"flat"`
	Halted bool    `json:"halted"`
	Err    string  `json:"err,omitempty"`
}

type driver struct {
	key    storetypes.StoreKey
	script map[[2]int]scriptEntry
	ncalls int
	calls  [][4]int64
}

type sub struct {
	idx int
	d   *driver
}

func timerName(id int) string { return fmt.Sprintf("t%03d", id) }
func timerID(name string) int64 {
	var id int64
	fmt.Sscanf(name, "t%03d", &id)
	return id
}

func subKey(sub int, k int64) []byte {
	b := make([]byte, 10)
	b[0] = 0xF0
	b[1] = byte(sub)
	binary.BigEndian.PutUint64(b[2:], uint64(k)^(1<<63)) // order-preserving for signed keys
	return b
}

func (d *driver) call(ctx sdk.Context, subIdx int, kind int64, id string, num int64) error {
	k := d.ncalls
	d.ncalls++
	d.calls = append(d.calls, [4]int64{int64(subIdx), kind, timerID(id), num})
	e, ok := d.script[[2]int{k, subIdx}]
	if !ok {
		return nil
	}
	store := ctx.KVStore(d.key)
	for _, w := range e.Writes {
		v := make([]byte, 8)
		binary.BigEndian.PutUint64(v, uint64(w[1]))
		store.Set(subKey(subIdx, w[0]), v)
	}
	switch e.Kind {
	case "err":
		return fmt.Errorf("scripted error")
	case "panic":
		panic("scripted panic")
	case "oog":
		panic(storetypes.ErrorOutOfGas{Descriptor: "scripted out of gas"})
	}
	return nil
}

func (s sub) AfterEpochEnd(ctx sdk.Context, id string, n int64) error {
	return s.d.call(ctx, s.idx, 0, id, n)
}
func (s sub) BeforeEpochStart(ctx sdk.Context, id string, n int64) error {
	return s.d.call(ctx, s.idx, 1, id, n)
}
func (s sub) GetModuleName() string { return fmt.Sprintf("sub%d", s.idx) }

func b2i(b bool) int64 {
	if b {
		return 1
	}
	return 0
}

func runCase(c tcase) (o obs) {
	key := storetypes.NewKVStoreKey(types.StoreKey)
	ctx := testutil.DefaultContext(key, storetypes.NewTransientStoreKey("transient_test"))
	d := &driver{key: key, script: map[[2]int]scriptEntry{}}
	for _, e := range c.Script {
		d.script[[2]int{e.K, e.I}] = e
	}
	hooks := []types.EpochHooks{}
	for i := 0; i < c.NSubs; i++ {
		hooks = append(hooks, sub{idx: i, d: d})
	}
	k := epochskeeper.NewKeeper(key)
	k = k.SetHooks(types.NewMultiEpochHooks(hooks...))
	ctx = ctx.WithBlockHeight(0).WithBlockTime(time.Unix(0, 1).UTC())
	eps := []types.EpochInfo{}
	for _, t := range c.Timers {
		eps = append(eps, types.EpochInfo{
			Identifier: timerName(t.ID), StartTime: time.Unix(0, t.Start).UTC(), Duration: time.Duration(t.Dur),
		})
	}
	k.InitGenesis(ctx, types.GenesisState{Epochs: eps})

	halted := false
	for _, b := range c.Blocks {
		if !halted {
			bctx := ctx.WithBlockTime(time.Unix(0, b[0]).UTC()).WithBlockHeight(b[1])
			func() {
				defer func() {
					if r := recover(); r != nil {
						if _, ok := r.(storetypes.ErrorOutOfGas); ok {
							halted = true
						} else {
							o.Err = fmt.Sprintf("unexpected panic: %v", r)
							halted = true
						}
					}
				}()
				k.BeginBlocker(bctx)
			}()
		}
		for _, e := range k.AllEpochInfos(ctx) {
			cst := int64(0) // the zero time.Time of a timer that has not started has no UnixNano
			if !e.CurrentEpochStartTime.IsZero() {
				cst = e.CurrentEpochStartTime.UnixNano()
			}
			o.Flat = append(o.Flat, e.CurrentEpoch, cst, b2i(e.EpochCountingStarted), e.CurrentEpochStartHeight)
		}
		o.Flat = append(o.Flat, int64(d.ncalls), b2i(halted))
	}
	o.Flat = append(o.Flat, -2)
	for _, cl := range d.calls {
		o.Flat = append(o.Flat, cl[0], cl[1], cl[2], cl[3])
	}
	o.Flat = append(o.Flat, -1)
	store := ctx.KVStore(key)
	for i := 0; i < c.NSubs; i++ {
		it := storetypes.KVStorePrefixIterator(store, []byte{0xF0, byte(i)})
		kvs := []int64{}
		n := int64(0)
		for ; it.Valid(); it.Next() {
			kk := int64(binary.BigEndian.Uint64(it.Key()[2:]) ^ (1 << 63))
			vv := int64(binary.BigEndian.Uint64(it.Value()))
			kvs = append(kvs, kk, vv)
			n++
		}
		it.Close()
		o.Flat = append(o.Flat, n)
		o.Flat = append(o.Flat, kvs...)
	}
	o.Halted = halted
	return o
}

func main() {
	in := bufio.NewReaderSize(os.Stdin, 1<<20)
	out := bufio.NewWriter(os.Stdout)
	defer out.Flush()
	dec := json.NewDecoder(in)
	enc := json.NewEncoder(out)
	for dec.More() {
		var c tcase
		if err := dec.Decode(&c); err != nil {
			fmt.Fprintln(os.Stderr, "bad case:", err)
			os.Exit(2)
		}
		enc.Encode(runCase(c))
	}
}
