package main

import (
	"fmt"

	"github.com/osmosis-labs/osmosis/osmomath"
)

func main() {
	fmt.Println(osmomath.NewBigDec(1).QuoRoundUp(osmomath.NewBigDec(-3)))
}
