// C09 driver: incentive gauges on the full app. One JSON case per line on stdin (a history of gauge / lock /
// epoch operations), one JSON observation per line on stdout. Every keeper call goes through apph.Atomic
// (baseapp message atomicity). Only projected observables are printed: amounts, small enums, ids relative to
// the first gauge created by the case, user indices instead of addresses.
package c09drv

import (
	"errors"
	"fmt"
	"sort"
	"strings"
	"testing"
	"time"

	sdk "github.com/cosmos/cosmos-sdk/types"
	sdkerrors "github.com/cosmos/cosmos-sdk/types/errors"

	"github.com/osmosis-labs/osmosis/osmomath"
	"github.com/osmosis-labs/osmosis/v31/app/apptesting"
	incentivestypes "github.com/osmosis-labs/osmosis/v31/x/incentives/types"
	lockuptypes "github.com/osmosis-labs/osmosis/v31/x/lockup/types"

	"verifharness/apph"
)

var rewardDenoms = []string{"uosmo", "usdc", "uatom", "stake", "ufoo"}
var lockDenoms = []string{"lpa", "lpb", "lpc", "lpz"} // lpz has no supply

type pool struct {
	R      int    `json:"r"`  // reward denom index paired with uosmo
	Osmo   string `json:"o"`  // uosmo reserve
	Other  string `json:"x"`  // other reserve
	WOsmo  int64  `json:"wo"` // weights
	WOther int64  `json:"wx"`
}

type op struct {
	K     string      `json:"k"`
	U     int         `json:"u"`
	Perp  int         `json:"perp"`
	LD    int         `json:"ld"`
	Dur   int64       `json:"dur"` // milliseconds (all times and durations)
	Coins [][2]string `json:"coins"` // [reward denom index, amount]
	Start int64       `json:"start"` // relative to the case's base time
	N     uint64      `json:"n"`
	G     uint64      `json:"g"`  // gauge id relative to the case (1-based)
	ID    uint64      `json:"id"` // lock id
	Amt   string      `json:"amt"`
	To    int         `json:"to"`
	Dt    int64       `json:"dt"`
	R     int         `json:"r"`
	On    int         `json:"on"`
	Pool  int         `json:"pool"`
	Dir   int         `json:"dir"`
}

type tcase struct {
	NU    int      `json:"nu"`
	NCL   int      `json:"ncl"` // concentrated-liquidity pools to create at set-up (targets of NoLock gauges)
	Funds []string `json:"funds"`
	Min   string `json:"min"`
	Pools []pool `json:"pools"`
	Ops   []op   `json:"ops"`
}

type obs struct {
	Flat     []string `json:"flat"`
	Lockable []int64  `json:"lockable"` // the chain's lockable durations (ms), a constant of the configuration
	// per epoch: every period lock as read from the lock store itself (GetPeriodLocks), independent of the
	// duration index that the distribution uses: [id, owner, denom index, amount, duration ms, unlocking, receiver]
	Locks [][][]string `json:"locks"`
	Err  string   `json:"err,omitempty"`
	Msgs []string `json:"msgs,omitempty"`
}

// clPoolId maps the case's 0-based pool index to the chain's pool id; -1 stands for pool id 0, an index beyond the
// pools created for a pool that does not exist
func clPoolId(ids []uint64, i int) uint64 {
	if i < 0 {
		return 0
	}
	if i >= len(ids) {
		return 999999
	}
	return ids[i]
}

func mustInt(s string) osmomath.Int {
	v, ok := osmomath.NewIntFromString(s)
	if !ok {
		panic("bad int " + s)
	}
	return v
}

// errCode projects an error to the small enum of the model (C09/Model.v E_*).
func errCode(k string, err error) int {
	if err == nil {
		return 0
	}
	switch k {
	case "lock", "addlock", "unlock", "withdraw", "recv":
		return 8
	case "epoch":
		return 9
	case "swap":
		return 10
	}
	var nr incentivestypes.NoRouteForDenomError
	var nf incentivestypes.GaugeNotFoundError
	var fg incentivestypes.UnexpectedFinishedGaugeError
	switch {
	case errors.Is(err, incentivestypes.ErrZeroNumEpochsPaidOver):
		return 1
	case errors.As(err, &nr):
		return 2
	case strings.Contains(err.Error(), "invalid duration"):
		return 3
	case strings.Contains(err.Error(), "denom does not exist"):
		return 4
	case errors.Is(err, sdkerrors.ErrInsufficientFunds):
		return 5
	case errors.As(err, &nf):
		return 6
	case errors.As(err, &fg):
		return 7
	}
	return 11
}

func TestDriver(t *testing.T) {
	apph.Serve(t, func(t *testing.T, c tcase) (o obs) {
		defer func() {
			if r := recover(); r != nil {
				o = obs{Err: fmt.Sprintf("driver panic: %v", r)}
			}
		}()
		return run(t, c)
	})
}

func run(t *testing.T, c tcase) obs {
	h := apph.New(t)
	app := h.App
	now := int64(0)
	users := apptesting.CreateRandomAccounts(c.NU)
	uidx := map[string]int{}
	big := mustInt("1000000000000000000000000000000000000")
	for i, u := range users {
		uidx[u.String()] = i
		fund := sdk.Coins{}
		for _, d := range lockDenoms[:3] {
			fund = fund.Add(sdk.NewCoin(d, big))
		}
		if f := mustInt(c.Funds[i]); f.IsPositive() {
			for _, d := range rewardDenoms {
				fund = fund.Add(sdk.NewCoin(d, f))
			}
		}
		h.FundAcc(u, fund)
	}
	swapper := h.TestAccs[1]
	sf := sdk.Coins{}
	for _, d := range rewardDenoms {
		sf = sf.Add(sdk.NewCoin(d, big))
	}
	h.FundAcc(swapper, sf)
	// pools giving reward denoms a price in uosmo, registered as protorev routes
	poolIds := []uint64{}
	for _, p := range c.Pools {
		coins := sdk.NewCoins(sdk.NewCoin("uosmo", mustInt(p.Osmo)), sdk.NewCoin(rewardDenoms[p.R], mustInt(p.Other)))
		w := []int64{0, 0}
		for i, cn := range coins {
			if cn.Denom == "uosmo" {
				w[i] = p.WOsmo
			} else {
				w[i] = p.WOther
			}
		}
		h.FundAcc(h.TestAccs[0], coins)
		id := h.PrepareBalancerPoolWithCoinsAndWeights(coins, w)
		poolIds = append(poolIds, id)
		app.ProtoRevKeeper.SetPoolForDenomPair(h.Ctx, "uosmo", rewardDenoms[p.R], id)
	}
	clIds := []uint64{}
	for i := 0; i < c.NCL; i++ {
		clIds = append(clIds, h.PrepareConcentratedPool().GetId())
	}
	minCoin := sdk.NewCoin("uosmo", mustInt(c.Min))
	app.IncentivesKeeper.SetParam(h.Ctx, incentivestypes.KeyMinValueForDistr, minCoin)
	// the case's clock starts well after the pool gauges' start time, so that they never share a reference key
	base := h.Ctx.BlockTime().Add(1000 * time.Second)
	gid0 := app.IncentivesKeeper.GetLastGaugeID(h.Ctx)
	lid0 := app.LockupKeeper.GetLastLockID(h.Ctx)
	modAddr := app.AccountKeeper.GetModuleAddress(incentivestypes.ModuleName)
	ngauges := uint64(0)
	flat := []string{}
	msgs := []string{}
	put := func(v interface{}) { flat = append(flat, fmt.Sprint(v)) }
	mkCoins := func(cs [][2]string) sdk.Coins {
		out := sdk.Coins{}
		for _, x := range cs {
			var ri int
			fmt.Sscan(x[0], &ri)
			out = out.Add(sdk.NewCoin(rewardDenoms[ri], mustInt(x[1])))
		}
		return out
	}
	ctxNow := func() sdk.Context { return h.Ctx.WithBlockTime(base.Add(time.Duration(now) * time.Millisecond)) }
	rel := func(ids []incentivestypes.Gauge) []uint64 {
		out := []uint64{}
		for _, g := range ids {
			if g.Id > gid0 {
				out = append(out, g.Id-gid0)
			}
		}
		return out
	}
	snapshot := func() {
		ctx := ctxNow()
		for g := uint64(1); g <= ngauges; g++ {
			ga, err := app.IncentivesKeeper.GetGaugeByID(ctx, gid0+g)
			if err != nil {
				panic(err)
			}
			for _, d := range rewardDenoms {
				put(ga.Coins.AmountOf(d))
			}
			for _, d := range rewardDenoms {
				put(ga.DistributedCoins.AmountOf(d))
			}
			put(ga.FilledEpochs)
		}
		for _, set := range [][]incentivestypes.Gauge{app.IncentivesKeeper.GetUpcomingGauges(ctx), app.IncentivesKeeper.GetActiveGauges(ctx), app.IncentivesKeeper.GetFinishedGauges(ctx)} {
			r := rel(set)
			// canonical form: the status sets are compared as sets (sorted ids), not in store iteration order
			sort.Slice(r, func(i, j int) bool { return r[i] < r[j] })
			put(len(r))
			for _, id := range r {
				put(id)
			}
		}
		for _, d := range rewardDenoms {
			put(app.BankKeeper.GetBalance(ctx, modAddr, d).Amount)
		}
	}
	lockListing := func() {
		ctx := ctxNow()
		for _, d := range lockDenoms[:3] {
			locks := app.LockupKeeper.GetLocksLongerThanDurationDenom(ctx, d, 0)
			sort.Slice(locks, func(i, j int) bool { return locks[i].ID < locks[j].ID }) // canonical form: by lock id
			put(len(locks))
			for _, l := range locks {
				put(l.ID - lid0)
				put(uidx[l.Owner])
				put(l.Coins.AmountOf(d))
				put(int64(l.Duration / time.Millisecond))
				if l.IsUnlocking() {
					put(1)
				} else {
					put(0)
				}
				rr := l.RewardReceiverAddress
				if rr == "" {
					rr = l.Owner
				}
				put(uidx[rr])
			}
		}
	}
	threshold := func(ctx sdk.Context, d string) string {
		if d == minCoin.Denom {
			return minCoin.Amount.String()
		}
		pid, err := app.ProtoRevKeeper.GetPoolForDenomPairNoOrder(ctx, minCoin.Denom, d)
		if err != nil {
			return "-1"
		}
		sm, pl, err := app.PoolManagerKeeper.GetPoolModuleAndPool(ctx, pid)
		if err != nil {
			return "-2"
		}
		out, err := sm.CalcOutAmtGivenIn(ctx, pl, minCoin, d, osmomath.ZeroDec())
		if err != nil {
			return "-2"
		}
		return out.Amount.String()
	}
	epochNo := int64(0)
	allLocks := [][][]string{}
	ldIdx := map[string]int{}
	for i, d := range lockDenoms {
		ldIdx[d] = i
	}
	for _, x := range c.Ops {
		var err error
		extra := []string{}
		switch x.K {
		case "gauge":
			var id uint64
			err = apph.Atomic(ctxNow(), func(ctx sdk.Context) error {
				var e error
				id, e = app.IncentivesKeeper.CreateGauge(ctx, x.Perp == 1, users[x.U], mkCoins(x.Coins),
					lockuptypes.QueryCondition{LockQueryType: lockuptypes.ByDuration, Denom: lockDenoms[x.LD], Duration: time.Duration(x.Dur) * time.Millisecond},
					base.Add(time.Duration(x.Start)*time.Millisecond), x.N, 0)
				return e
			})
			if err == nil {
				ngauges++
				if id != gid0+ngauges {
					panic("unexpected gauge id")
				}
			}
		case "ngauge":
			// an external NoLock gauge on concentrated-liquidity pool x.Pool (uptime 1 ns, the authorized default)
			var id uint64
			err = apph.Atomic(ctxNow(), func(ctx sdk.Context) error {
				var e error
				id, e = app.IncentivesKeeper.CreateGauge(ctx, x.Perp == 1, users[x.U], mkCoins(x.Coins),
					lockuptypes.QueryCondition{LockQueryType: lockuptypes.NoLock, Denom: "", Duration: time.Nanosecond},
					base.Add(time.Duration(x.Start)*time.Millisecond), x.N, clPoolId(clIds, x.Pool))
				return e
			})
			if err == nil {
				ngauges++
				if id != gid0+ngauges {
					panic("unexpected gauge id")
				}
			}
		case "add":
			err = apph.Atomic(ctxNow(), func(ctx sdk.Context) error {
				return app.IncentivesKeeper.AddToGaugeRewards(ctx, users[x.U], mkCoins(x.Coins), gid0+x.G)
			})
		case "lock":
			var lk lockuptypes.PeriodLock
			err = apph.Atomic(ctxNow(), func(ctx sdk.Context) error {
				var e error
				lk, e = app.LockupKeeper.CreateLock(ctx, users[x.U], sdk.NewCoins(sdk.NewCoin(lockDenoms[x.LD], mustInt(x.Amt))), time.Duration(x.Dur)*time.Millisecond)
				return e
			})
			if err == nil {
				extra = append(extra, fmt.Sprint(lk.ID-lid0))
			} else {
				extra = append(extra, "0")
			}
		case "addlock":
			err = apph.Atomic(ctxNow(), func(ctx sdk.Context) error {
				l, e := app.LockupKeeper.GetLockByID(ctx, lid0+x.ID)
				if e != nil {
					return e
				}
				_, e = app.LockupKeeper.AddTokensToLockByID(ctx, lid0+x.ID, l.OwnerAddress(), sdk.NewCoin(l.Coins[0].Denom, mustInt(x.Amt)))
				return e
			})
		case "unlock":
			var nid uint64
			err = apph.Atomic(ctxNow(), func(ctx sdk.Context) error {
				l, e := app.LockupKeeper.GetLockByID(ctx, lid0+x.ID)
				if e != nil {
					return e
				}
				cs := sdk.Coins{}
				if x.Amt != "" && x.Amt != "0" {
					cs = sdk.NewCoins(sdk.NewCoin(l.Coins[0].Denom, mustInt(x.Amt)))
				}
				nid, e = app.LockupKeeper.BeginUnlock(ctx, lid0+x.ID, cs)
				return e
			})
			if err == nil {
				extra = append(extra, fmt.Sprint(nid-lid0))
			} else {
				extra = append(extra, "0")
			}
		case "withdraw":
			err = apph.Atomic(ctxNow(), func(ctx sdk.Context) error {
				return app.LockupKeeper.UnlockMaturedLock(ctx, lid0+x.ID)
			})
		case "recv":
			err = apph.Atomic(ctxNow(), func(ctx sdk.Context) error {
				l, e := app.LockupKeeper.GetLockByID(ctx, lid0+x.ID)
				if e != nil {
					return e
				}
				return app.LockupKeeper.SetLockRewardReceiverAddress(ctx, lid0+x.ID, l.OwnerAddress(), users[x.To].String())
			})
		case "route":
			if x.On == 1 {
				app.ProtoRevKeeper.SetPoolForDenomPair(ctxNow(), "uosmo", rewardDenoms[x.R], poolIds[x.Pool])
			} else {
				app.ProtoRevKeeper.DeleteAllPoolsForBaseDenom(ctxNow(), "uosmo")
			}
		case "swap":
			// move a pool's price: swap Amt of one side in
			err = apph.Atomic(ctxNow(), func(ctx sdk.Context) error {
				p := c.Pools[x.Pool]
				in, out := "uosmo", rewardDenoms[p.R]
				if x.Dir == 1 {
					in, out = out, in
				}
				_, _, e := app.PoolManagerKeeper.SwapExactAmountIn(ctx, swapper, poolIds[x.Pool], sdk.NewCoin(in, mustInt(x.Amt)), out, osmomath.OneInt())
				return e
			})
		case "epochx":
			// the end of an epoch of ANOTHER identifier than the distribution epoch: nothing may happen
			err = apph.Atomic(ctxNow(), func(ctx sdk.Context) error {
				return app.IncentivesKeeper.AfterEpochEnd(ctx, "not-"+app.IncentivesKeeper.GetParams(ctx).DistrEpochIdentifier, epochNo)
			})
		case "time":
			now += x.Dt
		case "epoch":
			now += x.Dt
			epochNo++
			ctx0 := ctxNow()
			for _, d := range rewardDenoms {
				extra = append(extra, threshold(ctx0, d))
			}
			save := flat
			flat = []string{}
			lockListing()
			extra = append(extra, flat...)
			flat = save
			pl, perr := app.LockupKeeper.GetPeriodLocks(ctx0)
			if perr != nil {
				panic(perr)
			}
			cur := [][]string{}
			for _, l := range pl {
				if l.ID <= lid0 || len(l.Coins) != 1 {
					continue
				}
				rr := l.RewardReceiverAddress
				if rr == "" {
					rr = l.Owner
				}
				unl := "0"
				if l.IsUnlocking() {
					unl = "1"
				}
				cur = append(cur, []string{fmt.Sprint(l.ID - lid0), fmt.Sprint(uidx[l.Owner]), fmt.Sprint(ldIdx[l.Coins[0].Denom]), l.Coins[0].Amount.String(),
					fmt.Sprint(int64(l.Duration / time.Millisecond)), unl, fmt.Sprint(uidx[rr])})
			}
			allLocks = append(allLocks, cur)
			before := make([][]osmomath.Int, len(users))
			for i, u := range users {
				for _, d := range rewardDenoms {
					before[i] = append(before[i], app.BankKeeper.GetBalance(ctx0, u, d).Amount)
				}
			}
			err = apph.Atomic(ctx0, func(ctx sdk.Context) error {
				return app.IncentivesKeeper.AfterEpochEnd(ctx, app.IncentivesKeeper.GetParams(ctx).DistrEpochIdentifier, epochNo)
			})
			for i, u := range users {
				for j, d := range rewardDenoms {
					extra = append(extra, app.BankKeeper.GetBalance(ctx0, u, d).Amount.Sub(before[i][j]).String())
				}
			}
		default:
			panic("unknown op " + x.K)
		}
		put(errCode(x.K, err))
		if err != nil {
			msgs = append(msgs, x.K+": "+err.Error())
		}
		flat = append(flat, extra...)
		snapshot()
	}
	lockable := []int64{}
	for _, d := range app.IncentivesKeeper.GetLockableDurations(h.Ctx) {
		lockable = append(lockable, int64(d/time.Millisecond))
	}
	return obs{Flat: flat, Msgs: msgs, Lockable: lockable, Locks: allLocks}
}
